//! Extracts the `#[cfg(target_pointer_width = "16")]` helper functions from the repository's
//! src/graphics.rs (text level) so that they can be exercised on the host with counts beyond 65535,
//! which Miri's 16-bit address space cannot reach. Never fails: if the functions cannot be found,
//! a stub is generated and the runner reports "unavailable".
use std::fmt::Write;

fn extract(src: &str) -> Vec<(String, String)> {
    let marker = "#[cfg(target_pointer_width = \"16\")]";
    let mut out = Vec::new();
    let mut pos = 0;
    while let Some(i) = src[pos..].find(marker) {
        let start = pos + i + marker.len();
        let rest = &src[start..];
        // the item must be a fn
        let trimmed = rest.trim_start();
        if !(trimmed.starts_with("fn ") || trimmed.starts_with("pub fn ") || trimmed.starts_with("pub(crate) fn ")) {
            pos = start;
            continue;
        }
        let fn_off = start + (rest.len() - trimmed.len());
        let Some(brace) = src[fn_off..].find('{') else { break };
        let mut depth = 0i32;
        let mut end = None;
        for (k, ch) in src[fn_off + brace..].char_indices() {
            match ch {
                '{' => depth += 1,
                '}' => {
                    depth -= 1;
                    if depth == 0 {
                        end = Some(fn_off + brace + k + 1);
                        break;
                    }
                }
                _ => {}
            }
        }
        let Some(end) = end else { break };
        let item = src[fn_off..end].to_string();
        let name: String = item.split("fn ").nth(1).unwrap_or("").chars().take_while(|c| c.is_alphanumeric() || *c == '_').collect();
        out.push((name, item));
        pos = end;
    }
    out
}

fn main() {
    let repo = std::env::var("VERIF_REPO_OVERRIDE").unwrap_or_else(|_| "/repo".into());
    let path = format!("{}/src/graphics.rs", repo);
    println!("cargo:rerun-if-changed={}", path);
    println!("cargo:rerun-if-env-changed=VERIF_REPO_OVERRIDE");
    let out_dir = std::env::var("OUT_DIR").unwrap();
    let src = std::fs::read_to_string(&path).unwrap_or_default();
    let items = extract(&src);
    let take = items.iter().find(|(n, _)| n == "take_u32");
    let nth = items.iter().find(|(n, _)| n == "nth_u32");
    let mut gen = String::new();
    match (take, nth) {
        (Some(t), Some(n)) => {
            writeln!(gen, "pub const H16_FOUND: bool = true;").unwrap();
            writeln!(gen, "#[allow(dead_code, unused_mut)]\n{}", t.1).unwrap();
            writeln!(gen, "#[allow(dead_code, unused_mut)]\n{}", n.1).unwrap();
        }
        _ => {
            writeln!(gen, "pub const H16_FOUND: bool = false;").unwrap();
            writeln!(gen, "#[allow(dead_code)] fn take_u32<I: Iterator>(iter: I, _n: u32) -> impl Iterator<Item = I::Item> {{ iter }}").unwrap();
            writeln!(gen, "#[allow(dead_code)] fn nth_u32<I: Iterator>(mut iter: I, _n: u32) -> Option<I::Item> {{ iter.next() }}").unwrap();
        }
    }
    std::fs::write(format!("{}/h16.rs", out_dir), gen).unwrap();
}

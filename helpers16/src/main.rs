//! Host-side exercise of the crate's 16-bit take/skip helpers (extracted by build.rs) against the
//! standard library's `take` / `nth`, with counts around and beyond 65535.
include!(concat!(env!("OUT_DIR"), "/h16.rs"));

/// 0, 1, 2, ... `len` items (u64::MAX: endless); counts how often it was pulled
#[derive(Clone)]
struct Count {
    next: u64,
    len: u64,
    pulls: u64,
}
impl Iterator for Count {
    type Item = u64;
    fn next(&mut self) -> Option<u64> {
        self.pulls += 1;
        if self.next >= self.len {
            return None;
        }
        self.next += 1;
        Some(self.next - 1)
    }
}

fn main() {
    if !H16_FOUND {
        println!("H16X-UNAVAILABLE the 16-bit helper functions were not found in src/graphics.rs");
        return;
    }
    let counts: Vec<u32> = vec![0, 1, 2, 3, 7, 255, 256, 65534, 65535, 65536, 65537, 65538, 131071, 131072, 131073, 196608, 200001, 1 << 20];
    let lens: Vec<u64> = vec![0, 1, 2, 5, 65535, 65536, 65537, 131072, 200000, (1 << 20) + 5, u64::MAX];
    let mut evals = 0u64;
    let mut beyond = 0u64;
    let mut fails: Vec<String> = Vec::new();
    std::panic::set_hook(Box::new(|_| {}));
    for &len in &lens {
        for &n in &counts {
            let r = std::panic::catch_unwind(|| {
                let mut evals = 0u64;
                let mut fails: Vec<String> = Vec::new();
            // take_u32 vs take
            let got: (u64, Option<u64>) = {
                let mut c = 0u64;
                let mut last = None;
                for v in take_u32(Count { next: 0, len, pulls: 0 }, n) {
                    if v != c {
                        fails.push(format!("take_u32(len={}, n={}): item {} is {}", len, n, c, v));
                        break;
                    }
                    c += 1;
                    last = Some(v);
                    if c > n as u64 + 2 {
                        break;
                    }
                }
                (c, last)
            };
            let want = (n as u64).min(len);
            evals += 1;
            if got.0 != want {
                fails.push(format!("take_u32 over a stream of {} items with max_count {} yields {} items, expected {}", len, n, got.0, want));
            }
            // nth_u32 vs nth, twice in a row (position after the call matters for the next skip)
            let mut a = Count { next: 0, len, pulls: 0 };
            let mut b = Count { next: 0, len, pulls: 0 };
            for round in 0..2 {
                let ga = nth_u32(&mut a, n);
                let gb = b.nth(n as usize);
                evals += 1;
                if ga != gb || a.next != b.next {
                    fails.push(format!(
                        "nth_u32 (call {}) over a stream of {} items with n={} returns {:?} and leaves the stream at {}, expected {:?} at {}",
                        round + 1, len, n, ga, a.next, gb, b.next
                    ));
                    break;
                }
            }
                (evals, fails)
            });
            match r {
                Ok((e, f)) => {
                    evals += e;
                    fails.extend(f);
                }
                Err(_) => fails.push(format!("a 16-bit helper panicked for a stream of {} items and count {}", len, n)),
            }
            if n > 65535 && len > 65535 {
                beyond += 3;
            }
            if fails.len() > 5 {
                break;
            }
        }
    }
    if fails.is_empty() {
        println!("H16X-OK evaluations={} beyond_65535={}", evals, beyond);
    } else {
        for f in fails.iter().take(3) {
            println!("H16X-FAIL {}", f);
        }
        std::process::exit(1);
    }
}

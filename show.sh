#!/bin/bash
# dev helper: run vcheck for ids with the chk+batch binary and summarise
B=${VB:-/verif/target/chk-plus-batch/release/vcheck}
for p in "$@"; do echo "== $p"; rm -f /tmp/$p.json; ( time $B $p ${TIER:+--tier $TIER} --seed ${SEED:-1} --out /tmp/$p.json; echo "exit=$?" ) 2>&1 | grep -E "real|exit=[^01]|HARNESS"; python3 -c "
import json; d=json.load(open('/tmp/$p.json'))
for s in d['sections']: print(' ', s['name'], s['evaluations'], s['distinct_nontrivial'], s['violations'], s.get('labels') if '$LABELS' else '')
for v in d['violations'][:${NV:-4}]: print('  V', v['section'], v['signature'], v['reason'][:400]); print('    ', json.dumps(v['case'])[:${CL:-500}])"; done

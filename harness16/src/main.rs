//! 16-bit runner: executed by `cargo +nightly miri run --target msp430-none-elf` (usize::BITS == 16,
//! so the crate's `#[cfg(target_pointer_width = "16")]` take/skip helpers are the ones compiled).
//! Replays the cases the host generated (one command-line argument per case) against the
//! real `Display::fill_contiguous` and compares the traffic digest with the one the host
//! computed on its 64-bit code path (which the host validated against the reference model).
#![no_std]
#![no_main]
#![feature(core_intrinsics)]
#![allow(internal_features)]

mod shared;
use shared::*;

extern "Rust" {
    fn miri_write_to_stderr(bytes: &[u8]);
    fn miri_write_to_stdout(bytes: &[u8]);
}

fn put(s: &[u8]) {
    unsafe { miri_write_to_stdout(s) };
}
fn put_num(mut v: u32) {
    let mut buf = [0u8; 10];
    let mut i = 10;
    if v == 0 {
        put(b"0");
        return;
    }
    while v > 0 {
        i -= 1;
        buf[i] = b'0' + (v % 10) as u8;
        v /= 10;
    }
    put(&buf[i..]);
}

static mut CURRENT: u32 = u32::MAX;

#[panic_handler]
fn panic(_i: &core::panic::PanicInfo) -> ! {
    unsafe {
        miri_write_to_stdout(b"H16-PANIC case=");
    }
    put_num(unsafe { CURRENT });
    put(b"\n");
    core::intrinsics::abort()
}

/// parse one case from a C string "m,w,h,ox,oy,rot,mir,rx,ry,rw,rh,len,seed,ok,hash,cmds,words"
unsafe fn parse(mut p: *const u8) -> Option<(Case16, Outcome16)> {
    let mut v = [0i64; 17];
    let mut i = 0;
    loop {
        let mut neg = false;
        let mut n: i64 = 0;
        let mut digits = 0;
        if *p == b'-' {
            neg = true;
            p = p.add(1);
        }
        while *p >= b'0' && *p <= b'9' {
            n = n * 10 + (*p - b'0') as i64;
            p = p.add(1);
            digits += 1;
        }
        if digits == 0 || i >= 17 {
            return None;
        }
        v[i] = if neg { -n } else { n };
        i += 1;
        if *p == b',' {
            p = p.add(1);
            continue;
        }
        break;
    }
    if i != 17 || *p != 0 {
        return None;
    }
    Some((
        Case16 {
            model: v[0] as u8,
            w: v[1] as u16,
            h: v[2] as u16,
            ox: v[3] as u16,
            oy: v[4] as u16,
            rot: v[5] as u8,
            mirrored: v[6] != 0,
            rx: v[7] as i32,
            ry: v[8] as i32,
            rw: v[9] as u32,
            rh: v[10] as u32,
            len: v[11] as u32,
            seed: v[12] as u32,
        },
        Outcome16 { ok: v[13] != 0, hash: v[14] as u32, cmds: v[15] as u32, words: v[16] as u32 },
    ))
}

#[no_mangle]
fn miri_start(argc: isize, argv: *const *const u8) -> isize {
    if usize::BITS != 16 {
        unsafe { miri_write_to_stderr(b"not a 16-bit target\n") };
        return 3;
    }
    let mut bad = 0u32;
    let mut n = 0u32;
    // argv[0] is the program name; every further argument is one case
    for i in 1..argc {
        let arg = unsafe { *argv.offset(i) };
        let Some((case, want)) = (unsafe { parse(arg) }) else {
            put(b"H16-BADARG index=");
            put_num(i as u32);
            put(b"\n");
            return 4;
        };
        unsafe { CURRENT = n };
        let got = run_case(&case);
        if got != want {
            bad += 1;
            put(b"H16-MISMATCH case=");
            put_num(n);
            put(b" hash=");
            put_num(got.hash);
            put(b" cmds=");
            put_num(got.cmds);
            put(b" words=");
            put_num(got.words);
            put(b" ok=");
            put_num(got.ok as u32);
            put(b"\n");
        }
        n += 1;
    }
    put(b"H16-DONE cases=");
    put_num(n);
    put(b" mismatches=");
    put_num(bad);
    put(b"\n");
    if bad == 0 {
        0
    } else {
        1
    }
}

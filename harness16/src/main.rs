//! 16-bit runner: executed by `cargo +nightly miri run --target msp430-none-elf` (usize::BITS == 16,
//! so the crate's `#[cfg(target_pointer_width = "16")]` take/skip helpers are the ones compiled).
//! Replays the cases the host generated (H16_CASES points to a generated Rust file) against the
//! real `Display::fill_contiguous` and compares the traffic digest with the one the host
//! computed on its 64-bit code path (which the host validated against the reference model).
#![no_std]
#![no_main]
#![feature(core_intrinsics)]
#![allow(internal_features)]

mod shared;
use shared::*;

extern "Rust" {
    fn miri_write_to_stderr(bytes: &[u8]);
    fn miri_write_to_stdout(bytes: &[u8]);
}

include!(env!("H16_CASES"));

fn put(s: &[u8]) {
    unsafe { miri_write_to_stdout(s) };
}
fn put_num(mut v: u32) {
    let mut buf = [0u8; 10];
    let mut i = 10;
    if v == 0 {
        put(b"0");
        return;
    }
    while v > 0 {
        i -= 1;
        buf[i] = b'0' + (v % 10) as u8;
        v /= 10;
    }
    put(&buf[i..]);
}

static mut CURRENT: u32 = u32::MAX;

#[panic_handler]
fn panic(_i: &core::panic::PanicInfo) -> ! {
    unsafe {
        miri_write_to_stdout(b"H16-PANIC case=");
    }
    put_num(unsafe { CURRENT });
    put(b"\n");
    core::intrinsics::abort()
}

#[no_mangle]
fn miri_start(_argc: isize, _argv: *const *const u8) -> isize {
    if usize::BITS != 16 {
        unsafe { miri_write_to_stderr(b"not a 16-bit target\n") };
        return 3;
    }
    let mut bad = 0u32;
    for (i, (case, want)) in CASES.iter().enumerate() {
        unsafe { CURRENT = i as u32 };
        let got = run_case(case);
        if got != *want {
            bad += 1;
            put(b"H16-MISMATCH case=");
            put_num(i as u32);
            put(b" hash=");
            put_num(got.hash);
            put(b" cmds=");
            put_num(got.cmds);
            put(b" words=");
            put_num(got.words);
            put(b" ok=");
            put_num(got.ok as u32);
            put(b"\n");
        }
    }
    put(b"H16-DONE cases=");
    put_num(CASES.len() as u32);
    put(b" mismatches=");
    put_num(bad);
    put(b"\n");
    if bad == 0 {
        0
    } else {
        1
    }
}

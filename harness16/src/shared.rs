//! Code shared between the 16-bit runner (executed by Miri for msp430-none-elf) and the host
//! harness: a case description, a hashing `Interface`, and `run_case`, which drives the real
//! `Display::fill_contiguous`. core-only, no allocation.

use embedded_graphics_core::draw_target::DrawTarget;
use embedded_graphics_core::geometry::{Point, Size};
use embedded_graphics_core::pixelcolor::{Rgb565, Rgb666};
use embedded_graphics_core::prelude::RgbColor;
use embedded_graphics_core::primitives::Rectangle;
use embedded_hal::delay::DelayNs;
use mipidsi::dcs::{
    BitsPerPixel, ExitSleepMode, InterfaceExt, PixelFormat, SetAddressMode, SetDisplayOn, SetInvertMode, SetPixelFormat,
};
use mipidsi::interface::{Interface, InterfaceKind, InterfacePixelFormat};
use mipidsi::models::{Model, ModelInitError};
use mipidsi::options::{ModelOptions, Orientation, Rotation};
use mipidsi::Builder;

#[derive(Clone, Copy, Debug, PartialEq, Eq)]
pub struct Case16 {
    /// 0: 24x24 Rgb565, 1: 20x13 Rgb666, 2: 300x260 Rgb565 (more than 65535 pixels)
    pub model: u8,
    pub w: u16,
    pub h: u16,
    pub ox: u16,
    pub oy: u16,
    pub rot: u8,
    pub mirrored: bool,
    pub rx: i32,
    pub ry: i32,
    pub rw: u32,
    pub rh: u32,
    /// stream length; u32::MAX = infinite
    pub len: u32,
    pub seed: u32,
}

#[derive(Clone, Copy, Debug, PartialEq, Eq)]
pub struct Outcome16 {
    pub ok: bool,
    pub hash: u32,
    pub cmds: u32,
    pub words: u32,
}

pub struct HashIface {
    pub hash: u32,
    pub cmds: u32,
    pub words: u32,
}

impl HashIface {
    pub const fn new() -> Self {
        HashIface { hash: 0x811C_9DC5, cmds: 0, words: 0 }
    }
    #[inline]
    fn mix(&mut self, b: u8) {
        self.hash = (self.hash ^ b as u32).wrapping_mul(0x0100_0193);
    }
    pub fn reset(&mut self) {
        *self = HashIface::new();
    }
}

impl Interface for HashIface {
    type Word = u8;
    type Error = core::convert::Infallible;
    const KIND: InterfaceKind = InterfaceKind::Parallel8Bit;

    fn send_command(&mut self, command: u8, args: &[u8]) -> Result<(), Self::Error> {
        self.cmds += 1;
        self.mix(0xC0);
        self.mix(command);
        for a in args {
            self.mix(*a);
        }
        Ok(())
    }
    fn send_pixels<const N: usize>(&mut self, pixels: impl IntoIterator<Item = [u8; N]>) -> Result<(), Self::Error> {
        self.mix(0xD0);
        // index loops: under Miri on a 16-bit target every temporary costs address space
        let mut it = pixels.into_iter();
        while let Some(p) = it.next() {
            let mut i = 0;
            while i < N {
                self.mix(p[i]);
                i += 1;
            }
            self.words += N as u32;
        }
        Ok(())
    }
    fn send_repeated_pixel<const N: usize>(&mut self, pixel: [u8; N], count: u32) -> Result<(), Self::Error> {
        self.mix(0xE0);
        for b in pixel {
            self.mix(b);
        }
        for b in count.to_le_bytes() {
            self.mix(b);
        }
        self.words = self.words.wrapping_add(count.wrapping_mul(N as u32));
        Ok(())
    }
}

pub struct NoDelay16;
impl DelayNs for NoDelay16 {
    fn delay_ns(&mut self, _ns: u32) {}
}

pub struct M16<const FW: u16, const FH: u16, C>(core::marker::PhantomData<C>);

impl<const FW: u16, const FH: u16, C: RgbColor> Model for M16<FW, FH, C> {
    type ColorFormat = C;
    const FRAMEBUFFER_SIZE: (u16, u16) = (FW, FH);
    fn init<DELAY, DI>(&mut self, di: &mut DI, _delay: &mut DELAY, options: &ModelOptions) -> Result<SetAddressMode, ModelInitError<DI::Error>>
    where
        DELAY: DelayNs,
        DI: Interface,
    {
        let madctl = SetAddressMode::from(options);
        di.write_command(ExitSleepMode)?;
        di.write_command(madctl)?;
        di.write_command(SetInvertMode::new(options.invert_colors))?;
        di.write_command(SetPixelFormat::new(PixelFormat::with_all(BitsPerPixel::from_rgb_color::<C>())))?;
        di.write_command(SetDisplayOn)?;
        Ok(madctl)
    }
}

pub trait Mk {
    fn mk(v: u32) -> Self;
}
impl Mk for Rgb565 {
    fn mk(v: u32) -> Self {
        Rgb565::new(((v >> 11) & 31) as u8, ((v >> 5) & 63) as u8, (v & 31) as u8)
    }
}
impl Mk for Rgb666 {
    fn mk(v: u32) -> Self {
        Rgb666::new(((v >> 12) & 63) as u8, ((v >> 6) & 63) as u8, (v & 63) as u8)
    }
}

/// colour stream: k-th colour is a hash of (seed, k); stops after `len` items (u32::MAX: never);
/// panics when pulled more than `budget` times
pub struct Stream16<C> {
    pub seed: u32,
    pub k: u32,
    pub len: u32,
    pub pulls: u32,
    pub budget: u32,
    _p: core::marker::PhantomData<C>,
}

impl<C: Mk> Iterator for Stream16<C> {
    type Item = C;
    fn next(&mut self) -> Option<C> {
        self.pulls += 1;
        if self.pulls > self.budget {
            panic!("colour stream pulled beyond its budget");
        }
        if self.len != u32::MAX && self.k >= self.len {
            return None;
        }
        let mut z = (self.k ^ self.seed.rotate_left(13)).wrapping_mul(0x9E37_79B1);
        z ^= z >> 15;
        z = z.wrapping_mul(0x85EB_CA6B);
        z ^= z >> 13;
        self.k += 1;
        Some(C::mk(z))
    }
}

fn go<const FW: u16, const FH: u16, C>(c: &Case16) -> Outcome16
where
    C: RgbColor + Mk + InterfacePixelFormat<u8>,
{
    let rotation = match c.rot & 3 {
        0 => Rotation::Deg0,
        1 => Rotation::Deg90,
        2 => Rotation::Deg180,
        _ => Rotation::Deg270,
    };
    let mut o = Orientation::new();
    o.rotation = rotation;
    o.mirrored = c.mirrored;
    let r = Builder::new(M16::<FW, FH, C>(core::marker::PhantomData), HashIface::new())
        .display_size(c.w, c.h)
        .display_offset(c.ox, c.oy)
        .orientation(o)
        .init(&mut NoDelay16);
    let mut d = match r {
        Ok(d) => d,
        Err(_) => return Outcome16 { ok: false, hash: 1, cmds: 0, words: 0 },
    };
    unsafe { d.dcs() }.reset();
    let area = (c.rw as u64) * (c.rh as u64);
    let budget = (area.saturating_mul(2).saturating_add(64)).min(u32::MAX as u64 - 1) as u32;
    let stream = Stream16::<C> { seed: c.seed, k: 0, len: c.len, pulls: 0, budget, _p: core::marker::PhantomData };
    let rect = Rectangle::new(Point::new(c.rx, c.ry), Size::new(c.rw, c.rh));
    let ok = d.fill_contiguous(&rect, stream).is_ok();
    let di = unsafe { d.dcs() };
    Outcome16 { ok, hash: di.hash, cmds: di.cmds, words: di.words }
}

pub const MODELS16: [(u16, u16); 3] = [(24, 24), (20, 13), (300, 260)];

pub fn run_case(c: &Case16) -> Outcome16 {
    match c.model {
        0 => go::<24, 24, Rgb565>(c),
        1 => go::<20, 13, Rgb666>(c),
        _ => go::<300, 260, Rgb565>(c),
    }
}

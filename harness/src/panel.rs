//! Simulated MIPI-DCS display controller ("Panel").
//!
//! Written from the MIPI DCS command set / controller data sheets, *not* from the driver:
//! it consumes commands, parameters and pixel words and keeps the state a controller keeps.
//! It never looks at driver internals; the only configuration it gets is the physical
//! framebuffer size and the bus width the pixel words arrive on.

use std::collections::HashMap;

pub const UNTOUCHED: u32 = u32::MAX;

/// One element of the decoded bus stream (input log of the Panel).
#[derive(Debug, Clone, PartialEq, Eq)]
pub enum Tr {
    /// command with its parameter bytes, virtual time of the instruction word
    Cmd { op: u8, args: Vec<u8>, t: u64 },
    /// consecutive pixel-data words after a RAMWR (merged)
    Pix { words: u64 },
}

/// Record of one memory-write burst (from RAMWR to the next command)
#[derive(Debug, Clone, PartialEq, Eq)]
pub struct Burst {
    pub sc: u16,
    pub ec: u16,
    pub sp: u16,
    pub ep: u16,
    pub madctl: u8,
    pub pixels: u64,
    pub words: u64,
    /// colours of the pixels that were only book-kept (fills of more than 2^26 cells): the first one,
    /// and whether any other colour followed
    pub bulk_colour: Option<u32>,
    pub bulk_mixed: bool,
}

impl Burst {
    pub fn area(&self) -> u64 {
        if self.ec < self.sc || self.ep < self.sp {
            0
        } else {
            (self.ec as u64 - self.sc as u64 + 1) * (self.ep as u64 - self.sp as u64 + 1)
        }
    }
}

pub enum Mem {
    Dense { w: u32, cells: Vec<u32> },
    Sparse(HashMap<u64, u32>),
}

impl Mem {
    /// forget everything written so far (the harness wipes the simulated frame memory between phases)
    pub fn wipe(&mut self) {
        match self {
            Mem::Dense { cells, .. } => cells.iter_mut().for_each(|c| *c = UNTOUCHED),
            Mem::Sparse(m) => m.clear(),
        }
    }
    pub fn new(w: u32, h: u32) -> Self {
        let n = w as u64 * h as u64;
        if n <= (1 << 22) {
            Mem::Dense {
                w,
                cells: vec![UNTOUCHED; n as usize],
            }
        } else {
            Mem::Sparse(HashMap::new())
        }
    }
    #[inline]
    pub fn get(&self, x: u32, y: u32) -> u32 {
        match self {
            Mem::Dense { w, cells } => cells[(y as usize) * (*w as usize) + x as usize],
            Mem::Sparse(m) => *m.get(&((y as u64) << 32 | x as u64)).unwrap_or(&UNTOUCHED),
        }
    }
    #[inline]
    pub fn set(&mut self, x: u32, y: u32, v: u32) {
        match self {
            Mem::Dense { w, cells } => cells[(y as usize) * (*w as usize) + x as usize] = v,
            Mem::Sparse(m) => {
                m.insert((y as u64) << 32 | x as u64, v);
            }
        }
    }
    /// all written cells as (x, y, value)
    pub fn written(&self) -> Vec<(u32, u32, u32)> {
        match self {
            Mem::Dense { w, cells } => cells
                .iter()
                .enumerate()
                .filter(|(_, v)| **v != UNTOUCHED)
                .map(|(i, v)| ((i as u32) % *w, (i as u32) / *w, *v))
                .collect(),
            Mem::Sparse(m) => {
                let mut v: Vec<_> = m
                    .iter()
                    .filter(|(_, v)| **v != UNTOUCHED)
                    .map(|(k, v)| ((*k & 0xffff_ffff) as u32, (*k >> 32) as u32, *v))
                    .collect();
                v.sort();
                v
            }
        }
    }
    pub fn written_count(&self) -> u64 {
        match self {
            Mem::Dense { cells, .. } => cells.iter().filter(|v| **v != UNTOUCHED).count() as u64,
            Mem::Sparse(m) => m.values().filter(|v| **v != UNTOUCHED).count() as u64,
        }
    }
}

pub struct Panel {
    pub fbw: u32,
    pub fbh: u32,
    /// width of the words pixel data arrives in (8 or 16)
    pub bus_bits: u8,

    // --- controller state
    pub sleeping: bool,
    pub display_on: bool,
    pub inverted: bool,
    pub partial: bool,
    pub idle: bool,
    pub madctl: u8,
    pub colmod: Option<u8>,
    pub sc: u16,
    pub ec: u16,
    pub sp: u16,
    pub ep: u16,
    pub scroll_def: Option<(u16, u16, u16)>,
    pub scroll_start: Option<u16>,
    pub tearing: Option<Option<u8>>,
    /// manufacturer command page (RM67162 `0xFE p`); DCS user commands only act in page 0
    pub page: u8,

    // write pointer
    ramwr_open: bool,
    ptr_c: u32,
    ptr_p: u32,
    acc: Vec<u16>,

    pub mem: Mem,

    // --- observations
    pub trace: Vec<Tr>,
    pub bursts: Vec<Burst>,
    pub errors: Vec<String>,
    pub oob_addr: u64,
    pub wrapped: u64,
    pub swreset_count: u32,
    pub pixels_total: u64,
    /// (op, time) of every sleep-in / sleep-out
    pub sleep_log: Vec<(u8, u64)>,
    /// time of the most recent command of any kind
    pub last_cmd_t: u64,
    pub cmd_count: u64,
    /// a pixel was written (or RAMWR seen) since power-on
    pub ramwr_count: u64,
    /// solid fills over windows too large to store cell by cell (more than 2^26 cells): counted,
    /// the frame memory is then no longer meaningful (`mem_valid == false`)
    pub bulk_fills: u64,
    pub mem_valid: bool,
}

impl Panel {
    pub fn new(fbw: u32, fbh: u32, bus_bits: u8) -> Self {
        Panel {
            fbw,
            fbh,
            bus_bits,
            sleeping: true,
            display_on: false,
            inverted: false,
            partial: false,
            idle: false,
            madctl: 0,
            colmod: None,
            sc: 0,
            ec: (fbw.min(65536) - 1) as u16,
            sp: 0,
            ep: (fbh.min(65536) - 1) as u16,
            scroll_def: None,
            scroll_start: None,
            tearing: None,
            page: 0,
            ramwr_open: false,
            ptr_c: 0,
            ptr_p: 0,
            acc: Vec::new(),
            mem: Mem::new(fbw, fbh),
            trace: Vec::new(),
            bursts: Vec::new(),
            errors: Vec::new(),
            oob_addr: 0,
            wrapped: 0,
            swreset_count: 0,
            pixels_total: 0,
            sleep_log: Vec::new(),
            last_cmd_t: 0,
            cmd_count: 0,
            ramwr_count: 0,
            bulk_fills: 0,
            mem_valid: true,
        }
    }

    fn err(&mut self, s: String) {
        if self.errors.len() < 32 {
            self.errors.push(s);
        }
    }

    /// hardware reset (low pulse on RESX) or SWRESET: registers to defaults, memory kept
    pub fn reset_state(&mut self) {
        self.sleeping = true;
        self.display_on = false;
        self.inverted = false;
        self.partial = false;
        self.idle = false;
        self.madctl = 0;
        self.colmod = None;
        self.sc = 0;
        self.ec = (self.fbw.min(65536) - 1) as u16;
        self.sp = 0;
        self.ep = (self.fbh.min(65536) - 1) as u16;
        self.scroll_def = None;
        self.scroll_start = None;
        self.tearing = None;
        self.page = 0;
        self.ramwr_open = false;
        self.acc.clear();
    }

    pub fn mv(&self) -> bool {
        self.madctl & 0x20 != 0
    }
    pub fn mx(&self) -> bool {
        self.madctl & 0x40 != 0
    }
    pub fn my(&self) -> bool {
        self.madctl & 0x80 != 0
    }
    /// extent of the column / page address space under the current MADCTL
    pub fn extents(&self) -> (u32, u32) {
        if self.mv() {
            (self.fbh, self.fbw)
        } else {
            (self.fbw, self.fbh)
        }
    }

    /// bits per pixel announced by the last COLMOD (DBI field, low 3 bits)
    pub fn dbi_bpp(&self) -> Option<u8> {
        match self.colmod? & 0x07 {
            0b001 => Some(3),
            0b010 => Some(8),
            0b011 => Some(12),
            0b101 => Some(16),
            0b110 => Some(18),
            0b111 => Some(24),
            _ => None,
        }
    }

    fn words_per_pixel(&self) -> Option<usize> {
        match (self.dbi_bpp()?, self.bus_bits) {
            (16, 8) => Some(2),
            (18, 8) => Some(3),
            (24, 8) => Some(3),
            (16, 16) => Some(1),
            _ => None,
        }
    }

    fn decode(&self, w: &[u16]) -> u32 {
        match (self.dbi_bpp(), self.bus_bits) {
            (Some(16), 8) => ((w[0] as u32 & 0xff) << 8) | (w[1] as u32 & 0xff),
            (Some(16), 16) => w[0] as u32,
            // 18 bpp on an 8-bit bus: R, G, B, six bits left-aligned, two low bits don't care
            (Some(18), 8) => {
                (((w[0] as u32 & 0xff) >> 2) << 12)
                    | (((w[1] as u32 & 0xff) >> 2) << 6)
                    | ((w[2] as u32 & 0xff) >> 2)
            }
            (Some(24), 8) => {
                ((w[0] as u32 & 0xff) << 16) | ((w[1] as u32 & 0xff) << 8) | (w[2] as u32 & 0xff)
            }
            _ => 0,
        }
    }

    fn end_burst(&mut self) {
        if self.ramwr_open && !self.acc.is_empty() {
            let n = self.acc.len();
            self.err(format!("pixel burst ends with a partial pixel ({} stray words)", n));
        }
        self.acc.clear();
    }

    /// Call at the end of a driver call: closes nothing, but reports a dangling partial pixel.
    pub fn end_of_call(&mut self) {
        if self.ramwr_open && !self.acc.is_empty() {
            let n = self.acc.len();
            self.err(format!("call ends inside a pixel ({} stray words)", n));
            self.acc.clear();
        }
    }

    pub fn cmd(&mut self, op: u8, args: &[u8], t: u64) {
        self.end_burst();
        self.ramwr_open = false;
        self.trace.push(Tr::Cmd {
            op,
            args: args.to_vec(),
            t,
        });
        self.last_cmd_t = t;
        self.cmd_count += 1;

        if op == 0xFE && args.len() == 1 {
            self.page = args[0];
            return;
        }
        if self.page != 0 {
            return; // manufacturer command page: opcodes have other meanings
        }
        let nargs = |p: &mut Panel, n: usize| -> bool {
            if args.len() != n {
                p.err(format!(
                    "command {:#04x} with {} parameter bytes, expected {}",
                    op,
                    args.len(),
                    n
                ));
                false
            } else {
                true
            }
        };
        match op {
            0x01 => {
                if nargs(self, 0) {
                    self.reset_state();
                    self.swreset_count += 1;
                }
            }
            0x10 => {
                if nargs(self, 0) {
                    self.sleeping = true;
                    self.sleep_log.push((0x10, t));
                }
            }
            0x11 => {
                if nargs(self, 0) {
                    self.sleeping = false;
                    self.sleep_log.push((0x11, t));
                }
            }
            0x12 => {
                if nargs(self, 0) {
                    self.partial = true;
                }
            }
            0x13 => {
                if nargs(self, 0) {
                    self.partial = false;
                }
            }
            0x20 => {
                if nargs(self, 0) {
                    self.inverted = false;
                }
            }
            0x21 => {
                if nargs(self, 0) {
                    self.inverted = true;
                }
            }
            0x28 => {
                if nargs(self, 0) {
                    self.display_on = false;
                }
            }
            0x29 => {
                if nargs(self, 0) {
                    self.display_on = true;
                }
            }
            0x2A => {
                if nargs(self, 4) {
                    let s = u16::from_be_bytes([args[0], args[1]]);
                    let e = u16::from_be_bytes([args[2], args[3]]);
                    let ext = self.extents().0;
                    if s > e {
                        self.err(format!("CASET start {} > end {}", s, e));
                    }
                    if e as u32 >= ext {
                        self.err(format!("CASET end {} outside column extent {}", e, ext));
                    }
                    self.sc = s;
                    self.ec = e;
                }
            }
            0x2B => {
                if nargs(self, 4) {
                    let s = u16::from_be_bytes([args[0], args[1]]);
                    let e = u16::from_be_bytes([args[2], args[3]]);
                    let ext = self.extents().1;
                    if s > e {
                        self.err(format!("RASET start {} > end {}", s, e));
                    }
                    if e as u32 >= ext {
                        self.err(format!("RASET end {} outside page extent {}", e, ext));
                    }
                    self.sp = s;
                    self.ep = e;
                }
            }
            0x2C => {
                if nargs(self, 0) {
                    self.ramwr_open = true;
                    self.ramwr_count += 1;
                    self.ptr_c = self.sc as u32;
                    self.ptr_p = self.sp as u32;
                    self.bursts.push(Burst {
                        sc: self.sc,
                        ec: self.ec,
                        sp: self.sp,
                        ep: self.ep,
                        madctl: self.madctl,
                        pixels: 0,
                        words: 0,
                        bulk_colour: None,
                        bulk_mixed: false,
                    });
                }
            }
            0x33 => {
                if nargs(self, 6) {
                    self.scroll_def = Some((
                        u16::from_be_bytes([args[0], args[1]]),
                        u16::from_be_bytes([args[2], args[3]]),
                        u16::from_be_bytes([args[4], args[5]]),
                    ));
                }
            }
            0x34 => {
                if nargs(self, 0) {
                    self.tearing = Some(None);
                }
            }
            0x35 => {
                if nargs(self, 1) {
                    self.tearing = Some(Some(args[0]));
                }
            }
            0x36 => {
                if nargs(self, 1) {
                    self.madctl = args[0];
                }
            }
            0x37 => {
                if nargs(self, 2) {
                    self.scroll_start = Some(u16::from_be_bytes([args[0], args[1]]));
                }
            }
            0x38 => {
                if nargs(self, 0) {
                    self.idle = false;
                }
            }
            0x39 => {
                if nargs(self, 0) {
                    self.idle = true;
                }
            }
            0x3A => {
                if nargs(self, 1) {
                    self.colmod = Some(args[0]);
                }
            }
            _ => {} // manufacturer specific: no effect on the modelled state
        }
    }

    fn note_pix_words(&mut self, n: u64) {
        if let Some(Tr::Pix { words }) = self.trace.last_mut() {
            *words += n;
        } else {
            self.trace.push(Tr::Pix { words: n });
        }
        if let Some(b) = self.bursts.last_mut() {
            b.words += n;
        }
    }

    /// pixel-data words (after RAMWR)
    pub fn data_words(&mut self, words: &[u16]) {
        if words.is_empty() {
            return;
        }
        if !self.ramwr_open {
            self.err("pixel data without a preceding memory-write-start".into());
            self.trace.push(Tr::Pix {
                words: words.len() as u64,
            });
            return;
        }
        self.note_pix_words(words.len() as u64);
        let Some(n) = self.words_per_pixel() else {
            self.err(format!(
                "pixel data with unsupported format colmod={:?} on {}-bit bus",
                self.colmod, self.bus_bits
            ));
            return;
        };
        for &w in words {
            self.acc.push(w);
            if self.acc.len() == n {
                let acc = std::mem::take(&mut self.acc);
                let c = self.decode(&acc);
                self.acc = acc;
                self.acc.clear();
                self.write_pixel(c);
            }
        }
    }

    /// the same pixel `count` times (O(min(count, 2*area)))
    pub fn repeat(&mut self, pixel: &[u16], count: u64) {
        if count == 0 || pixel.is_empty() {
            return;
        }
        if !self.ramwr_open {
            self.err("repeated pixel without a preceding memory-write-start".into());
            return;
        }
        let Some(n) = self.words_per_pixel() else {
            self.err(format!(
                "pixel data with unsupported format colmod={:?} on {}-bit bus",
                self.colmod, self.bus_bits
            ));
            return;
        };
        if (!self.acc.is_empty() || pixel.len() != n) && pixel.iter().all(|w| *w == pixel[0]) {
            // one word repeated (e.g. a driver that sends black as single bytes): the same word stream as
            // an aligned repeat once the pixel in progress is completed
            let one = [pixel[0]];
            let mut rest = count * pixel.len() as u64;
            while !self.acc.is_empty() && rest > 0 {
                self.data_words(&one);
                rest -= 1;
            }
            let (full, tail) = (rest / n as u64, rest % n as u64);
            if full > 0 {
                let px = vec![pixel[0]; n];
                self.repeat(&px, full);
            }
            for _ in 0..tail {
                self.data_words(&one);
            }
            return;
        }
        if !self.acc.is_empty() || pixel.len() != n {
            // misaligned: fall back to word-wise processing with a cap
            let cap = 1u64 << 22;
            let m = count.min(cap);
            for _ in 0..m {
                self.data_words(pixel);
            }
            if count > m {
                self.err("oversized misaligned repeat".into());
            }
            return;
        }
        self.note_pix_words(count * n as u64);
        let c = self.decode(pixel);
        let area = self.bursts.last().map(|b| b.area()).unwrap_or(0);
        if area > (1 << 26) {
            // e.g. clear() of a 65535x65535 framebuffer: only the bookkeeping is kept
            self.bulk_fills += 1;
            self.mem_valid = false;
            self.pixels_total += count;
            if let Some(b) = self.bursts.last_mut() {
                b.pixels += count;
                match b.bulk_colour {
                    None => b.bulk_colour = Some(c),
                    Some(c0) if c0 != c => b.bulk_mixed = true,
                    _ => {}
                }
            }
            if count > area {
                self.wrapped += 1;
            }
            return;
        }
        let cap = 2 * area + 2;
        let m = count.min(cap);
        for _ in 0..m {
            self.write_pixel(c);
        }
        if count > m {
            // the rest only wraps around over and over: same colour, already stored
            self.pixels_total += count - m;
            self.wrapped += 1;
            if let Some(b) = self.bursts.last_mut() {
                b.pixels += count - m;
            }
        }
    }

    /// physical cell addressed by pointer (c, p) under the current MADCTL
    pub fn cell(&self, c: u32, p: u32) -> Option<(u32, u32)> {
        let (mut x, mut y) = if self.mv() { (p, c) } else { (c, p) };
        if x >= self.fbw || y >= self.fbh {
            return None;
        }
        if self.mx() {
            x = self.fbw - 1 - x;
        }
        if self.my() {
            y = self.fbh - 1 - y;
        }
        Some((x, y))
    }

    fn write_pixel(&mut self, colour: u32) {
        self.pixels_total += 1;
        let area;
        if let Some(b) = self.bursts.last_mut() {
            b.pixels += 1;
            area = b.area();
            if b.pixels == area + 1 {
                self.wrapped += 1;
            }
        } else {
            return;
        }
        if area == 0 {
            self.oob_addr += 1;
            return;
        }
        match self.cell(self.ptr_c, self.ptr_p) {
            Some((x, y)) => self.mem.set(x, y, colour),
            None => self.oob_addr += 1,
        }
        // advance: column first, wrap to SC after EC, next page; after EP back to SP
        if self.ptr_c >= self.ec as u32 {
            self.ptr_c = self.sc as u32;
            if self.ptr_p >= self.ep as u32 {
                self.ptr_p = self.sp as u32;
            } else {
                self.ptr_p += 1;
            }
        } else {
            self.ptr_c += 1;
        }
    }

    pub fn take_trace(&mut self) -> Vec<Tr> {
        std::mem::take(&mut self.trace)
    }
    pub fn take_bursts(&mut self) -> Vec<Burst> {
        std::mem::take(&mut self.bursts)
    }
    pub fn take_errors(&mut self) -> Vec<String> {
        std::mem::take(&mut self.errors)
    }
}

//! Shared execution of drawing programs against a display and the reference image.

use crate::dut::{build, new_world, Dut, DutErr};
use crate::oracle::{compare_memory, RefImage};
use crate::panel::{Burst, Tr};
use crate::rig::W;
use crate::types::*;
use serde::{Deserialize, Serialize};

#[derive(Clone, Debug, PartialEq, Eq, Hash, Serialize, Deserialize)]
pub struct ProgCase {
    pub cfg: Config,
    pub ops: Vec<DrawOp>,
}

/// What one drawing call put on the bus
pub struct CallObs {
    pub trace: Vec<Tr>,
    pub bursts: Vec<Burst>,
    pub errors: Vec<String>,
    pub decode_errors: Vec<String>,
    pub in_bounds_pixels: u64,
    pub pulls: u64,
    pub spi_transactions: u64,
    /// SPI only: per pixel burst (bytes, transactions that carried or terminated it)
    pub spi_bursts: Vec<(u64, u64)>,
}

pub struct Session {
    pub cfg: Config,
    pub w: W,
    pub dut: Box<dyn Dut>,
    pub img: RefImage,
    pub orient: Orient,
    pub bits: u32,
}

pub fn err_string(e: &DutErr) -> String {
    format!("{:?}", e)
}

/// What happened to a display before the calls a check judges: it was built with another
/// orientation, drew something, and was re-oriented (possibly several times) to the orientation of
/// the case. The simulated frame memory is wiped afterwards, so the judged calls start from an
/// untouched panel - but the driver and the controller carry whatever state the history left.
#[derive(Clone, Debug, PartialEq, Eq, Hash, Serialize, Deserialize)]
pub struct Hist {
    pub first: Orient,
    /// in-bounds drawing calls under `first`
    pub pre: Vec<DrawOp>,
    /// orientations set one after the other (each followed by the drawing call of `mid` with the same
    /// index, if any) before the final one
    pub via: Vec<Orient>,
    #[serde(default)]
    pub mid: Vec<DrawOp>,
    /// after the final orientation has been set: a set_orientation to this value whose very first
    /// low-level operation fails, so nothing of it reaches the controller (used by C08 only)
    #[serde(default)]
    pub failed: Option<Orient>,
}

#[derive(Clone, Debug, PartialEq, Eq, Hash, Serialize, Deserialize)]
pub struct HistCase {
    pub hist: Hist,
    pub prog: ProgCase,
}

thread_local! { static PRELUDE: std::cell::RefCell<Option<Hist>> = std::cell::RefCell::new(None); }

/// run `f` with every `Session::start` of this thread preceded by the history
pub fn with_history<T>(h: &Hist, f: impl FnOnce() -> T) -> T {
    PRELUDE.with(|p| *p.borrow_mut() = Some(h.clone()));
    let r = f();
    PRELUDE.with(|p| *p.borrow_mut() = None);
    r
}

impl Session {
    /// build + init; the reference image starts empty (nothing drawn)
    pub fn start(cfg: &Config) -> Result<Session, String> {
        let hist = PRELUDE.with(|p| p.borrow().clone());
        let Some(h) = hist else { return Session::start_plain(cfg) };
        let mut cfg0 = cfg.clone();
        cfg0.orient = h.first;
        let mut s = Session::start_plain(&cfg0)?;
        for op in &h.pre {
            let pulls = std::cell::Cell::new(0u64);
            s.dut.run(op, &pulls).map_err(|e| format!("history: {} under {:?} failed: {}", op_name(op), h.first, err_string(&e)))?;
        }
        let mut mid = h.mid.iter();
        for o in h.via.iter().chain(std::iter::once(&cfg.orient)) {
            s.dut.set_orientation(*o).map_err(|e| format!("history: set_orientation({:?}) failed: {}", o, err_string(&e)))?;
            if let Some(op) = mid.next() {
                // drawn under orientation o with coordinates that are in bounds for every orientation
                let pulls = std::cell::Cell::new(0u64);
                s.dut.run(op, &pulls).map_err(|e| format!("history: {} under {:?} failed: {}", op_name(op), o, err_string(&e)))?;
            }
        }
        if let Some(o) = h.failed {
            {
                let mut wb = s.w.borrow_mut();
                let a = wb.ops;
                wb.fail_at = vec![a];
            }
            let r = s.dut.set_orientation(o);
            s.w.borrow_mut().fail_at.clear();
            if r.is_ok() {
                // the call needed no bus operation (or none failed): put the orientation of the case back
                s.dut.set_orientation(cfg.orient).map_err(|e| format!("history: set_orientation({:?}) failed: {}", cfg.orient, err_string(&e)))?;
            }
        }
        {
            let mut wb = s.w.borrow_mut();
            if let Some(e) = wb.panel.take_errors().first() {
                return Err(format!("history: controller saw malformed traffic: {}", e));
            }
            if let Some(e) = wb.decode_errors.first() {
                return Err(format!("history: bus decode error: {}", e));
            }
            if wb.panel.oob_addr != 0 {
                return Err(format!("history: {} pixel writes addressed memory outside the framebuffer", wb.panel.oob_addr));
            }
            wb.panel.take_trace();
            wb.panel.take_bursts();
            wb.panel.mem.wipe();
        }
        let (lw, lh) = cfg.logical_size(cfg.orient);
        s.cfg = cfg.clone();
        s.orient = cfg.orient;
        s.img = RefImage::new(lw, lh);
        Ok(s)
    }

    fn start_plain(cfg: &Config) -> Result<Session, String> {
        let w = new_world(cfg);
        let dut = build(cfg, &w).map_err(|e| format!("init failed: {}", err_string(&e)))?;
        {
            let mut wb = w.borrow_mut();
            let errs = wb.panel.take_errors();
            if !errs.is_empty() {
                return Err(format!("controller saw malformed traffic during init: {:?}", errs));
            }
            if !wb.decode_errors.is_empty() {
                return Err(format!("bus decode errors during init: {:?}", wb.decode_errors));
            }
            wb.panel.take_trace();
            wb.panel.take_bursts();
        }
        let (lw, lh) = cfg.logical_size(cfg.orient);
        let bits = dut.bits();
        Ok(Session { cfg: cfg.clone(), w, dut, img: RefImage::new(lw, lh), orient: cfg.orient, bits })
    }

    /// run one call on the display and on the reference; returns what was observed.
    /// Any returned error / panic is reported as Err (the rig's bus is infallible here).
    pub fn call(&mut self, op: &DrawOp) -> Result<CallObs, String> {
        let pulls = std::cell::Cell::new(0u64);
        let spi0 = self.w.borrow().spi_transactions;
        let spi = matches!(self.cfg.transport, Transport::Spi { .. });
        if spi {
            let mut wb = self.w.borrow_mut();
            wb.raw_on = true;
            wb.raw.clear();
        }
        let r = self.dut.run(op, &pulls);
        let n = self.img.apply(op, self.bits);
        let mut wb = self.w.borrow_mut();
        let spi_bursts = if spi { spi_burst_transactions(&wb.raw) } else { Vec::new() };
        if spi {
            wb.raw_on = false;
            wb.raw.clear();
        }
        let obs = CallObs {
            trace: wb.panel.take_trace(),
            bursts: wb.panel.take_bursts(),
            errors: wb.panel.take_errors(),
            decode_errors: std::mem::take(&mut wb.decode_errors),
            in_bounds_pixels: n,
            pulls: pulls.get(),
            spi_transactions: wb.spi_transactions - spi0,
            spi_bursts,
        };
        drop(wb);
        match r {
            Ok(()) => Ok(obs),
            Err(DutErr::Panic(m)) => Err(format!("{} panicked: {}", op_name(op), m)),
            Err(e) => Err(format!("{} returned an error the bus did not produce: {}", op_name(op), err_string(&e))),
        }
    }

    pub fn compare(&self) -> Result<(), String> {
        let wb = self.w.borrow();
        compare_memory(&self.cfg, self.orient, &self.img, &wb.panel)
    }
}

/// From the raw SPI log of one call: for every memory-write-start, the number of data bytes that
/// followed and the number of transactions that carried them. The (possibly empty) parameter write
/// that belongs to the command itself is not counted; an empty write that ends a burst is.
pub fn spi_burst_transactions(raw: &[crate::rig::Raw]) -> Vec<(u64, u64)> {
    use crate::rig::Raw;
    let mut out: Vec<(u64, u64)> = Vec::new();
    // 0: outside, 1: just saw RAMWR (the next empty data write is the command's parameter write), 2: in burst
    let mut state = 0;
    for r in raw {
        if let Raw::Spi { dc, bytes, ok, .. } = r {
            if !ok {
                continue;
            }
            match dc {
                Some(false) => {
                    if bytes.as_slice() == [0x2C] {
                        out.push((0, 0));
                        state = 1;
                    } else {
                        state = 0;
                    }
                }
                Some(true) => {
                    if state == 1 && bytes.is_empty() {
                        state = 2;
                    } else if state == 1 || state == 2 {
                        state = 2;
                        if let Some(b) = out.last_mut() {
                            b.0 += bytes.len() as u64;
                            b.1 += 1;
                        }
                    }
                }
                None => {}
            }
        }
    }
    out
}

pub fn op_name(op: &DrawOp) -> &'static str {
    match op {
        DrawOp::SetPixel { .. } => "set_pixel",
        DrawOp::SetPixels { .. } => "set_pixels",
        DrawOp::DrawIter { .. } => "draw_iter",
        DrawOp::FillContiguous { .. } => "fill_contiguous",
        DrawOp::FillSolid { .. } => "fill_solid",
        DrawOp::Clear { .. } => "clear",
    }
}

/// C08: the trace of one drawing call is `(CASET(4) RASET(4) RAMWR PIXELS?)*`, windows well formed,
/// bursts whole pixels and no larger than the window.
pub fn check_framing(obs: &CallObs, dt_call: bool) -> Result<(), String> {
    if let Some(e) = obs.errors.first() {
        return Err(format!("controller saw malformed traffic: {}", e));
    }
    if let Some(e) = obs.decode_errors.first() {
        return Err(format!("bus decode error: {}", e));
    }
    let mut i = 0;
    let t = &obs.trace;
    while i < t.len() {
        match (&t.get(i), &t.get(i + 1), &t.get(i + 2)) {
            (
                Some(Tr::Cmd { op: 0x2A, args: a, .. }),
                Some(Tr::Cmd { op: 0x2B, args: b, .. }),
                Some(Tr::Cmd { op: 0x2C, args: c, .. }),
            ) if a.len() == 4 && b.len() == 4 && c.is_empty() => {
                i += 3;
                if let Some(Tr::Pix { .. }) = t.get(i) {
                    i += 1;
                }
            }
            _ => {
                return Err(format!(
                    "drawing call emitted something other than CASET,RASET,RAMWR,pixels groups at element {}: {:?}",
                    i,
                    t.iter().skip(i).take(4).collect::<Vec<_>>()
                ));
            }
        }
    }
    if dt_call {
        for b in &obs.bursts {
            if b.pixels > b.area() {
                return Err(format!(
                    "pixel burst of {} pixels overruns its window cols {}..={} pages {}..={} (area {})",
                    b.pixels,
                    b.sc,
                    b.ec,
                    b.sp,
                    b.ep,
                    b.area()
                ));
            }
        }
    }
    Ok(())
}

/// number of RAMWR commands in a call's trace
pub fn window_setups(obs: &CallObs) -> u64 {
    obs.trace.iter().filter(|t| matches!(t, Tr::Cmd { op: 0x2C, .. })).count() as u64
}

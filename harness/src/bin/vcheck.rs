//! vcheck <id> --tier quick|thorough --seed N --variant NAME --out part.json [--replay file]
use serde_json::{json, Value};
use std::time::Instant;
use vharness::props::{self, Ctx, Tier};
use vharness::runner::default_workers;

fn main() {
    let args: Vec<String> = std::env::args().collect();
    if args.len() < 2 {
        eprintln!("usage: vcheck <id> [--tier quick|thorough] [--seed N] [--variant V] [--out f] [--replay f]");
        std::process::exit(2);
    }
    let id = args[1].clone();
    let mut tier = Tier::Quick;
    let mut seed: u64 = 1;
    let mut variant = String::from(if cfg!(feature = "batch") { "chk+batch" } else { "chk-nobatch" });
    let mut out: Option<String> = None;
    let mut replay: Option<String> = None;
    let mut i = 2;
    while i < args.len() {
        match args[i].as_str() {
            "--tier" => {
                tier = if args[i + 1] == "thorough" { Tier::Thorough } else { Tier::Quick };
                i += 1;
            }
            "--seed" => {
                seed = args[i + 1].parse().unwrap_or(1);
                i += 1;
            }
            "--variant" => {
                variant = args[i + 1].clone();
                i += 1;
            }
            "--out" => {
                out = Some(args[i + 1].clone());
                i += 1;
            }
            "--replay" => {
                replay = Some(args[i + 1].clone());
                i += 1;
            }
            x => {
                eprintln!("unknown argument {}", x);
                std::process::exit(2);
            }
        }
        i += 1;
    }
    vharness::dut::install_panic_hook();

    if let Some(path) = replay {
        let txt = std::fs::read_to_string(&path).unwrap_or_else(|e| {
            eprintln!("cannot read {}: {}", path, e);
            std::process::exit(2);
        });
        let v: Value = serde_json::from_str(&txt).unwrap_or_else(|e| {
            eprintln!("cannot parse {}: {}", path, e);
            std::process::exit(2);
        });
        let section = v["section"].as_str().unwrap_or("");
        match props::replay_property(&id, section, &v["case"]) {
            None => {
                eprintln!("unknown property {}", id);
                std::process::exit(2);
            }
            Some(Ok(())) => {
                println!("REPLAY-OK property={} variant={} replay={}", id, variant, path);
                std::process::exit(0);
            }
            Some(Err(e)) if e.starts_with("HARNESS") => {
                eprintln!("{}", e);
                std::process::exit(2);
            }
            Some(Err(e)) => {
                println!("REPLAY-FAIL property={} variant={} replay={} reason={}", id, variant, path, e);
                std::process::exit(1);
            }
        }
    }

    let ctx = Ctx { tier, seed, workers: default_workers(), variant: variant.clone() };
    let t0 = Instant::now();
    let run = std::panic::catch_unwind(std::panic::AssertUnwindSafe(|| props::run_property(&id, &ctx)));
    let rep = match run {
        Ok(Some(rep)) => rep,
        Ok(None) => {
            eprintln!("unknown property {}", id);
            std::process::exit(2);
        }
        Err(_) => {
            // a panic of the harness itself (driver panics are caught per case): inconclusive, never a violation
            eprintln!("HARNESS PANIC in {}: {}", id, vharness::dut::last_panic());
            std::process::exit(2);
        }
    };
    let wall = t0.elapsed().as_secs_f64();

    let mut viols = Vec::new();
    for s in &rep.sections {
        for v in &s.violations {
            viols.push(json!({
                "section": s.name,
                "reason": v.reason,
                "signature": v.signature,
                "case": v.case,
            }));
        }
    }
    let part = json!({
        "property_id": rep.property,
        "variant": variant,
        "tier": if tier == Tier::Thorough { "thorough" } else { "quick" },
        "seed": seed,
        "level": rep.level,
        "sections": rep.sections.iter().map(|s| s.to_json()).collect::<Vec<_>>(),
        "assumptions": rep.assumptions,
        "wall_s": wall,
        "violations": viols,
    });
    let txt = serde_json::to_string_pretty(&part).unwrap();
    match out {
        Some(p) => std::fs::write(&p, txt).expect("write part"),
        None => println!("{}", txt),
    }
    std::process::exit(if viols.is_empty() { 0 } else { 1 });
}

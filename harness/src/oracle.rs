//! Geometric reference, written from the property text (independent of `MemoryMapping` and of the
//! driver's offset arithmetic): rotate the logical image clockwise, mirror left-right, shift by the
//! offset.

use crate::panel::{Panel, UNTOUCHED};
use crate::types::{colour_of, Config, DrawOp, Orient, Rect, StreamLen};
use std::collections::HashMap;

/// Logical point -> physical framebuffer cell.
pub fn to_phys(cfg: &Config, o: Orient, x: u32, y: u32) -> (u32, u32) {
    let (w, h) = (cfg.w as u32, cfg.h as u32);
    let (lw, lh) = cfg.logical_size(o);
    debug_assert!(x < lw && y < lh);
    // rotate clockwise by rot quarter turns into panel-local coordinates
    let (mut u, v) = match o.rot & 3 {
        0 => (x, y),
        1 => (lh - 1 - y, x),
        2 => (lw - 1 - x, lh - 1 - y),
        _ => (y, lw - 1 - x),
    };
    debug_assert!(u < w && v < h);
    if o.mirrored {
        u = w - 1 - u;
    }
    (u + cfg.ox as u32, v + cfg.oy as u32)
}

/// Reference image over the logical coordinate space with last-write-wins semantics.
pub struct RefImage {
    pub lw: u32,
    pub lh: u32,
    dense: Option<Vec<u32>>,
    sparse: HashMap<u64, u32>,
    pub drawn: u64,
}

impl RefImage {
    pub fn new(lw: u32, lh: u32) -> Self {
        let n = lw as u64 * lh as u64;
        RefImage {
            lw,
            lh,
            dense: if n <= (1 << 22) {
                Some(vec![UNTOUCHED; n as usize])
            } else {
                None
            },
            sparse: HashMap::new(),
            drawn: 0,
        }
    }
    pub fn inside(&self, x: i64, y: i64) -> bool {
        x >= 0 && y >= 0 && x < self.lw as i64 && y < self.lh as i64
    }
    pub fn get(&self, x: u32, y: u32) -> u32 {
        match &self.dense {
            Some(d) => d[(y as usize) * self.lw as usize + x as usize],
            None => *self.sparse.get(&((y as u64) << 32 | x as u64)).unwrap_or(&UNTOUCHED),
        }
    }
    /// clipped put
    pub fn put(&mut self, x: i64, y: i64, c: u32) -> bool {
        if !self.inside(x, y) {
            return false;
        }
        self.drawn += 1;
        match &mut self.dense {
            Some(d) => d[(y as usize) * self.lw as usize + x as usize] = c,
            None => {
                self.sparse.insert((y as u64) << 32 | x as u64, c);
            }
        }
        true
    }
    /// every drawn point
    pub fn points(&self) -> Vec<(u32, u32, u32)> {
        match &self.dense {
            Some(d) => d
                .iter()
                .enumerate()
                .filter(|(_, v)| **v != UNTOUCHED)
                .map(|(i, v)| ((i as u32) % self.lw, (i as u32) / self.lw, *v))
                .collect(),
            None => {
                let mut v: Vec<_> = self
                    .sparse
                    .iter()
                    .map(|(k, v)| ((*k & 0xffff_ffff) as u32, (*k >> 32) as u32, *v))
                    .collect();
                v.sort();
                v
            }
        }
    }

    /// Apply one drawing call with the semantics the properties state. Returns the number of
    /// in-bounds pixels it drew. `limit` caps the work on absurdly large clipped rectangles
    /// (only the visible part is iterated).
    pub fn apply(&mut self, op: &DrawOp, bits: u32) -> u64 {
        let mut n = 0;
        match op {
            DrawOp::SetPixel { x, y, seed } => {
                if self.put(*x as i64, *y as i64, colour_of(*seed, 0, bits)) {
                    n += 1;
                }
            }
            DrawOp::SetPixels { sx, sy, ex, ey, n: cnt, seed } => {
                let ww = (*ex as u64 - *sx as u64) + 1;
                let hh = (*ey as u64 - *sy as u64) + 1;
                for k in 0..*cnt as u64 {
                    // surplus colours wrap around inside the window (documented behaviour of set_pixels,
                    // and what a MIPI-DCS write pointer does at the end of the window)
                    let kk = k % (ww * hh);
                    let x = *sx as u64 + kk % ww;
                    let y = *sy as u64 + kk / ww;
                    if self.put(x as i64, y as i64, colour_of(*seed, k, bits)) {
                        n += 1;
                    }
                }
            }
            DrawOp::DrawIter { pts, seed } => {
                for (k, (x, y)) in pts.iter().enumerate() {
                    if self.put(*x as i64, *y as i64, colour_of(*seed, k as u64, bits)) {
                        n += 1;
                    }
                }
            }
            DrawOp::FillContiguous { rect, len, seed } => {
                let l = match len {
                    StreamLen::Finite(l) => *l,
                    StreamLen::Infinite => u64::MAX,
                };
                n += self.for_visible(rect, |img, x, y, k| {
                    if k < l {
                        img.put(x, y, colour_of(*seed, k, bits));
                        true
                    } else {
                        false
                    }
                });
            }
            DrawOp::FillSolid { rect, seed } => {
                let c = colour_of(*seed, 0, bits);
                n += self.for_visible(rect, |img, x, y, _| {
                    img.put(x, y, c);
                    true
                });
            }
            DrawOp::Clear { seed } => {
                let c = colour_of(*seed, 0, bits);
                let r = Rect { x: 0, y: 0, w: self.lw, h: self.lh };
                n += self.for_visible(&r, |img, x, y, _| {
                    img.put(x, y, c);
                    true
                });
            }
        }
        n
    }

    /// iterate over the points of `rect` that lie inside the image, with their row-major index
    /// in the *whole* rectangle
    fn for_visible(&mut self, rect: &Rect, mut f: impl FnMut(&mut RefImage, i64, i64, u64) -> bool) -> u64 {
        let mut n = 0;
        if rect.w == 0 || rect.h == 0 {
            return 0;
        }
        let x0 = (rect.x as i64).max(0);
        let y0 = (rect.y as i64).max(0);
        let x1 = (rect.x as i64 + rect.w as i64).min(self.lw as i64); // exclusive
        let y1 = (rect.y as i64 + rect.h as i64).min(self.lh as i64);
        let mut y = y0;
        while y < y1 {
            let mut x = x0;
            while x < x1 {
                let k = (y - rect.y as i64) as u64 * rect.w as u64 + (x - rect.x as i64) as u64;
                if f(self, x, y, k) {
                    n += 1;
                }
                x += 1;
            }
            y += 1;
        }
        n
    }
}

/// Compare the Panel's frame memory with the reference image mapped through the geometric
/// transform: every drawn logical point must be at its physical cell with its colour, and no
/// other cell may have been written.
pub fn compare_memory(cfg: &Config, o: Orient, img: &RefImage, panel: &Panel) -> Result<(), String> {
    let pts = img.points();
    for &(x, y, c) in &pts {
        let (px, py) = to_phys(cfg, o, x, y);
        let got = panel.mem.get(px, py);
        if got != c {
            return Err(format!(
                "logical ({},{}) -> expected cell ({},{}) to hold {:#x}, found {}",
                x,
                y,
                px,
                py,
                c,
                if got == UNTOUCHED { "untouched".to_string() } else { format!("{:#x}", got) }
            ));
        }
    }
    let wc = panel.mem.written_count();
    if wc != pts.len() as u64 {
        // find an offending cell for the report
        let mut expected = std::collections::HashSet::new();
        for &(x, y, _) in &pts {
            expected.insert(to_phys(cfg, o, x, y));
        }
        for (x, y, v) in panel.mem.written() {
            if !expected.contains(&(x, y)) {
                return Err(format!(
                    "cell ({},{}) was written ({:#x}) although no drawn in-bounds pixel maps to it ({} cells written, {} expected)",
                    x, y, v, wc, pts.len()
                ));
            }
        }
        return Err(format!("{} cells written, {} expected", wc, pts.len()));
    }
    if panel.oob_addr != 0 {
        return Err(format!("{} pixel writes addressed memory outside the framebuffer", panel.oob_addr));
    }
    Ok(())
}

/// physical rectangle of the panel window: [ox, ox+w) x [oy, oy+h)
pub fn in_window(cfg: &Config, px: u32, py: u32) -> bool {
    px >= cfg.ox as u32 && px < cfg.ox as u32 + cfg.w as u32 && py >= cfg.oy as u32 && py < cfg.oy as u32 + cfg.h as u32
}

/// The MY/MX/MV bits (MADCTL bits 7/6/5) each orientation requires, *derived* rather than
/// written down: for a full-framebuffer display (3x2, no offsets, so any driver must address
/// columns 0..lw-1 and pages 0..lh-1) the unique triple under which the Panel's addressing puts
/// every logical point where the geometric reference says.
pub fn derive_orientation_bits() -> [u8; 8] {
    use crate::models::ModelId;
    use crate::types::Transport;
    let mut out = [0u8; 8];
    for o in Orient::ALL {
        let mut cfg = Config::full(ModelId::E2x3, Transport::Rec8);
        cfg.orient = o;
        let (lw, lh) = cfg.logical_size(o);
        let mut found = Vec::new();
        for bits in 0..8u8 {
            let mut p = Panel::new(2, 3, 8);
            p.madctl = bits << 5;
            let ok = (0..lh).all(|y| (0..lw).all(|x| p.cell(x, y) == Some(to_phys(&cfg, o, x, y))));
            if ok {
                found.push(bits << 5);
            }
        }
        assert!(found.len() == 1, "HARNESS: orientation {:?} has {} matching MADCTL triples", o, found.len());
        out[o.index()] = found[0];
    }
    out
}

/// MIPI-DCS encoding of the address mode: bits 7/6/5 from the orientation, bit 4 bottom-to-top
/// refresh, bit 3 BGR, bit 2 right-to-left refresh, bits 1-0 zero.
pub fn madctl_expected(table: &[u8; 8], o: Orient, bgr: bool, refresh_v: bool, refresh_h: bool) -> u8 {
    table[o.index()] | if refresh_v { 1 << 4 } else { 0 } | if bgr { 1 << 3 } else { 0 } | if refresh_h { 1 << 2 } else { 0 }
}

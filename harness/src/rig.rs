//! Test doubles: pins, SPI device, delay source and a direct `Interface` recorder.
//! All doubles of one display share one `World` with a single timeline and a single
//! low-level operation counter (used for fault injection).

use crate::panel::Panel;
use embedded_hal::delay::DelayNs;
use embedded_hal::digital::{ErrorType as PinErrorType, OutputPin};
use embedded_hal::spi::{ErrorType as SpiErrorType, Operation, SpiDevice};
use mipidsi::interface::{Interface, InterfaceKind};
use std::cell::RefCell;
use std::marker::PhantomData;
use std::rc::Rc;

#[derive(Clone, Copy, Debug, PartialEq, Eq, Hash)]
pub enum Src {
    Dc,
    Wr,
    Rst,
    Data(u8),
    Spi,
    Iface,
}

/// Error type of every test double.
#[derive(Clone, Copy, Debug, PartialEq, Eq)]
pub struct Fault {
    pub src: Src,
    /// true: produced by the operation budget (runaway detection), not by the fault plan
    pub budget: bool,
}

impl embedded_hal::digital::Error for Fault {
    fn kind(&self) -> embedded_hal::digital::ErrorKind {
        embedded_hal::digital::ErrorKind::Other
    }
}
impl embedded_hal::spi::Error for Fault {
    fn kind(&self) -> embedded_hal::spi::ErrorKind {
        embedded_hal::spi::ErrorKind::Other
    }
}

/// Raw low-level event (recorded only when `World::raw_on`)
#[derive(Clone, Debug, PartialEq, Eq)]
pub enum Raw {
    Pin { src: Src, level: bool, t: u64, ok: bool },
    /// one SPI transaction: bytes written, DC level at that time
    Spi { dc: Option<bool>, bytes: Vec<u8>, t: u64, ok: bool },
    Delay { ns: u64 },
    /// a direct Interface call on `RecIface`
    Iface { what: &'static str, t: u64, ok: bool },
    /// pixel words handed to `RecIface::send_pixels` (one entry per pixel)
    IfacePix { words: Vec<u16> },
    /// `RecIface::send_repeated_pixel`
    IfaceRepeat { pixel: Vec<u16>, count: u32 },
}

pub struct World {
    /// number of low-level operations issued so far (pin writes, SPI transactions, Interface calls)
    pub ops: u64,
    /// operation indices that fail
    pub fail_at: Vec<u64>,
    /// operations allowed before everything fails with `budget: true`
    pub op_budget: u64,
    pub budget_hit: bool,
    pub now_ns: u64,
    pub delay_calls: u64,

    pub dc: Option<bool>,
    pub wr: Option<bool>,
    pub rst: Option<bool>,
    pub data: [Option<bool>; 16],
    pub data_bits: u8,

    // stream decoder state (pin-level transports)
    cur_cmd: Option<u8>,
    cur_t: u64,
    args: Vec<u8>,
    in_ramwr: bool,

    pub panel: Panel,
    pub decode_errors: Vec<String>,

    pub raw_on: bool,
    pub raw: Vec<Raw>,

    /// reset-pin timeline: (level, time, ops index at that moment)
    pub rst_log: Vec<(bool, u64, u64)>,
    /// ops index and time of the first word that reached the bus (SPI byte, WR rising edge, Interface call)
    pub first_bus: Option<(u64, u64)>,
    /// number of words latched / bytes written while RST was low or undefined-after-low
    pub bus_while_reset: u64,
    /// number of SPI transactions
    pub spi_transactions: u64,
    /// number of words that reached the controller
    pub bus_words: u64,
    /// every word as latched by the controller: (D/C level, word) - only when `latch_on`
    pub latch_on: bool,
    pub latch_log: Vec<(bool, u16)>,
    /// one-shot: the next write to this data pin fails (C07 b)
    pub fail_data_pin: Option<u8>,
    /// "late" faults: a failing pin write still changes the level (e.g. a port expander whose
    /// write went through while the acknowledge was lost); default: a failed write leaves the level
    pub late_faults: bool,
}

pub type W = Rc<RefCell<World>>;

impl World {
    pub fn new(fbw: u32, fbh: u32, bus_bits: u8) -> W {
        Rc::new(RefCell::new(World {
            ops: 0,
            fail_at: Vec::new(),
            op_budget: u64::MAX,
            budget_hit: false,
            now_ns: 0,
            delay_calls: 0,
            dc: None,
            // documented user obligation: WR idles high
            wr: Some(true),
            rst: None,
            data: [None; 16],
            data_bits: bus_bits,
            cur_cmd: None,
            cur_t: 0,
            args: Vec::new(),
            in_ramwr: false,
            panel: Panel::new(fbw, fbh, bus_bits),
            decode_errors: Vec::new(),
            raw_on: false,
            raw: Vec::new(),
            rst_log: Vec::new(),
            first_bus: None,
            bus_while_reset: 0,
            spi_transactions: 0,
            bus_words: 0,
            latch_on: false,
            latch_log: Vec::new(),
            fail_data_pin: None,
            late_faults: false,
        }))
    }

    /// account one low-level operation; Err if it is to fail
    fn op(&mut self, src: Src) -> Result<(), Fault> {
        let idx = self.ops;
        self.ops += 1;
        if idx >= self.op_budget {
            self.budget_hit = true;
            return Err(Fault { src, budget: true });
        }
        if self.fail_at.contains(&idx) {
            return Err(Fault { src, budget: false });
        }
        Ok(())
    }

    fn derr(&mut self, s: String) {
        if self.decode_errors.len() < 32 {
            self.decode_errors.push(s);
        }
    }

    fn note_bus(&mut self) {
        self.bus_words += 1;
        if self.first_bus.is_none() {
            self.first_bus = Some((self.ops, self.now_ns));
        }
        if self.rst == Some(false) {
            self.bus_while_reset += 1;
        }
    }

    /// one word as the controller latches it
    fn feed(&mut self, is_cmd: bool, word: u16) {
        self.note_bus();
        if self.latch_on {
            self.latch_log.push((!is_cmd, word));
        }
        if is_cmd {
            self.finish_cmd();
            if word > 0xff {
                self.derr(format!("instruction word {:#06x} wider than 8 bits", word));
            }
            let op = word as u8;
            self.cur_cmd = Some(op);
            self.cur_t = self.now_ns;
            self.args.clear();
            if op == 0x2C && self.panel.page == 0 {
                let t = self.now_ns;
                self.panel.cmd(op, &[], t);
                self.in_ramwr = true;
                self.cur_cmd = None;
            } else {
                self.in_ramwr = false;
            }
        } else if self.in_ramwr {
            self.panel.data_words(&[word]);
        } else if self.cur_cmd.is_some() {
            if word > 0xff {
                self.derr(format!("parameter word {:#06x} wider than 8 bits", word));
            }
            self.args.push(word as u8);
        } else {
            self.derr("data word before any instruction".into());
        }
    }

    fn finish_cmd(&mut self) {
        if let Some(op) = self.cur_cmd.take() {
            let args = std::mem::take(&mut self.args);
            let t = self.cur_t;
            self.panel.cmd(op, &args, t);
            self.args = args;
            self.args.clear();
        }
    }

    /// Forget the observations of an earlier phase (e.g. a failed init) before judging the next one.
    pub fn begin_epoch(&mut self) {
        self.finish_cmd();
        self.rst_log.clear();
        self.first_bus = None;
        self.bus_while_reset = 0;
        self.decode_errors.clear();
        self.latch_log.clear();
        self.panel.take_trace();
        self.panel.take_errors();
        self.panel.take_bursts();
        self.panel.swreset_count = 0;
        self.fail_at.clear();
        self.in_ramwr = false;
    }

    /// Bring the Panel up to date at the end of a driver call.
    pub fn flush(&mut self) {
        self.finish_cmd();
        self.panel.end_of_call();
    }

    fn set_pin(&mut self, src: Src, level: bool) -> Result<(), Fault> {
        let mut r = self.op(src);
        if let (Src::Data(i), Some(f)) = (src, self.fail_data_pin) {
            if i == f && r.is_ok() {
                self.fail_data_pin = None;
                r = Err(Fault { src, budget: false });
            }
        }
        if self.raw_on {
            let t = self.now_ns;
            self.raw.push(Raw::Pin {
                src,
                level,
                t,
                ok: r.is_ok(),
            });
        }
        if r.is_err() {
            if self.late_faults && !matches!(r, Err(Fault { budget: true, .. })) {
                // the level changes although the call reports failure; no edge semantics (WR/RST) are
                // attached to a failed write: only plain level pins are affected
                match src {
                    Src::Dc => self.dc = Some(level),
                    Src::Data(i) => self.data[i as usize] = Some(level),
                    _ => {}
                }
            }
            return r;
        }
        match src {
            Src::Dc => self.dc = Some(level),
            Src::Rst => {
                let prev = self.rst;
                self.rst = Some(level);
                let (t, o) = (self.now_ns, self.ops);
                self.rst_log.push((level, t, o));
                if prev == Some(false) && level {
                    // end of a hardware reset pulse
                    self.finish_cmd();
                    self.panel.reset_state();
                    self.in_ramwr = false;
                }
            }
            Src::Data(i) => self.data[i as usize] = Some(level),
            Src::Wr => {
                let prev = self.wr;
                self.wr = Some(level);
                if prev == Some(false) && level {
                    // rising edge: the controller latches the data bus
                    let mut v: u16 = 0;
                    let mut undefined = false;
                    for i in 0..self.data_bits as usize {
                        match self.data[i] {
                            Some(true) => v |= 1 << i,
                            Some(false) => {}
                            None => undefined = true,
                        }
                    }
                    if undefined {
                        self.derr("data pin with undefined level sampled at WR edge".into());
                    }
                    match self.dc {
                        Some(dc) => self.feed(!dc, v),
                        None => {
                            self.derr("D/C undefined at WR edge".into());
                        }
                    }
                }
            }
            _ => {}
        }
        Ok(())
    }
}

// ---------------------------------------------------------------------------------------------
// pins

pub struct Pin {
    pub w: W,
    pub src: Src,
}

impl PinErrorType for Pin {
    type Error = Fault;
}
impl OutputPin for Pin {
    fn set_low(&mut self) -> Result<(), Fault> {
        self.w.borrow_mut().set_pin(self.src, false)
    }
    fn set_high(&mut self) -> Result<(), Fault> {
        self.w.borrow_mut().set_pin(self.src, true)
    }
}

pub fn pin(w: &W, src: Src) -> Pin {
    Pin { w: w.clone(), src }
}

pub type Pins8 = (Pin, Pin, Pin, Pin, Pin, Pin, Pin, Pin);
pub type Pins16 = (
    Pin,
    Pin,
    Pin,
    Pin,
    Pin,
    Pin,
    Pin,
    Pin,
    Pin,
    Pin,
    Pin,
    Pin,
    Pin,
    Pin,
    Pin,
    Pin,
);

pub fn pins8(w: &W) -> Pins8 {
    (
        pin(w, Src::Data(0)),
        pin(w, Src::Data(1)),
        pin(w, Src::Data(2)),
        pin(w, Src::Data(3)),
        pin(w, Src::Data(4)),
        pin(w, Src::Data(5)),
        pin(w, Src::Data(6)),
        pin(w, Src::Data(7)),
    )
}
pub fn pins16(w: &W) -> Pins16 {
    (
        pin(w, Src::Data(0)),
        pin(w, Src::Data(1)),
        pin(w, Src::Data(2)),
        pin(w, Src::Data(3)),
        pin(w, Src::Data(4)),
        pin(w, Src::Data(5)),
        pin(w, Src::Data(6)),
        pin(w, Src::Data(7)),
        pin(w, Src::Data(8)),
        pin(w, Src::Data(9)),
        pin(w, Src::Data(10)),
        pin(w, Src::Data(11)),
        pin(w, Src::Data(12)),
        pin(w, Src::Data(13)),
        pin(w, Src::Data(14)),
        pin(w, Src::Data(15)),
    )
}

// ---------------------------------------------------------------------------------------------
// SPI device

pub struct SpiDev {
    pub w: W,
}

impl SpiErrorType for SpiDev {
    type Error = Fault;
}

impl SpiDevice<u8> for SpiDev {
    fn transaction(&mut self, operations: &mut [Operation<'_, u8>]) -> Result<(), Fault> {
        let mut w = self.w.borrow_mut();
        let r = w.op(Src::Spi);
        w.spi_transactions += 1;
        if w.raw_on {
            let mut bytes = Vec::new();
            for o in operations.iter() {
                if let Operation::Write(b) = o {
                    bytes.extend_from_slice(b);
                }
            }
            let (dc, t) = (w.dc, w.now_ns);
            w.raw.push(Raw::Spi {
                dc,
                bytes,
                t,
                ok: r.is_ok(),
            });
        }
        r?;
        for o in operations.iter() {
            match o {
                Operation::Write(b) => {
                    if b.is_empty() {
                        continue;
                    }
                    match w.dc {
                        Some(dc) => {
                            for &x in b.iter() {
                                w.feed(!dc, x as u16);
                            }
                        }
                        None => w.derr("SPI write while D/C is undefined".into()),
                    }
                }
                _ => w.derr("unexpected SPI operation (not a write)".into()),
            }
        }
        Ok(())
    }
}

// ---------------------------------------------------------------------------------------------
// delay

pub struct Clock {
    pub w: W,
}

impl DelayNs for Clock {
    fn delay_ns(&mut self, ns: u32) {
        let mut w = self.w.borrow_mut();
        w.now_ns += ns as u64;
        w.delay_calls += 1;
        if w.raw_on {
            w.raw.push(Raw::Delay { ns: ns as u64 });
        }
    }
}

// ---------------------------------------------------------------------------------------------
// direct Interface recorder

pub trait KindMarker {
    const KIND: InterfaceKind;
}
pub struct KSerial;
pub struct KP8;
pub struct KP16;
impl KindMarker for KSerial {
    const KIND: InterfaceKind = InterfaceKind::Serial4Line;
}
impl KindMarker for KP8 {
    const KIND: InterfaceKind = InterfaceKind::Parallel8Bit;
}
impl KindMarker for KP16 {
    const KIND: InterfaceKind = InterfaceKind::Parallel16Bit;
}

pub trait BusWord: Copy + 'static {
    const BITS: u8;
    fn to_u16(self) -> u16;
}
impl BusWord for u8 {
    const BITS: u8 = 8;
    fn to_u16(self) -> u16 {
        self as u16
    }
}
impl BusWord for u16 {
    const BITS: u8 = 16;
    fn to_u16(self) -> u16 {
        self
    }
}

pub struct RecIface<Wd, K> {
    pub w: W,
    _p: PhantomData<(Wd, K)>,
}

impl<Wd, K> RecIface<Wd, K> {
    pub fn new(w: &W) -> Self {
        RecIface {
            w: w.clone(),
            _p: PhantomData,
        }
    }
}

impl<Wd: BusWord, K: KindMarker> Interface for RecIface<Wd, K> {
    type Word = Wd;
    type Error = Fault;
    const KIND: InterfaceKind = K::KIND;

    fn send_command(&mut self, command: u8, args: &[u8]) -> Result<(), Fault> {
        let mut w = self.w.borrow_mut();
        let r = w.op(Src::Iface);
        if w.raw_on {
            let t = w.now_ns;
            w.raw.push(Raw::Iface {
                what: "cmd",
                t,
                ok: r.is_ok(),
            });
        }
        r?;
        w.note_bus();
        let t = w.now_ns;
        w.panel.cmd(command, args, t);
        Ok(())
    }

    fn send_pixels<const N: usize>(
        &mut self,
        pixels: impl IntoIterator<Item = [Wd; N]>,
    ) -> Result<(), Fault> {
        {
            let mut w = self.w.borrow_mut();
            let r = w.op(Src::Iface);
            if w.raw_on {
                let t = w.now_ns;
                w.raw.push(Raw::Iface {
                    what: "pixels",
                    t,
                    ok: r.is_ok(),
                });
            }
            r?;
        }
        // the iterator is driven without the world borrowed: it may call back into our doubles
        let mut buf: Vec<u16> = Vec::with_capacity(256);
        let raw_on = self.w.borrow().raw_on;
        for px in pixels {
            for x in px {
                buf.push(x.to_u16());
            }
            if raw_on {
                let words: Vec<u16> = px.iter().map(|x| x.to_u16()).collect();
                self.w.borrow_mut().raw.push(Raw::IfacePix { words });
            }
            if buf.len() >= 240 {
                let mut w = self.w.borrow_mut();
                w.note_bus();
                w.panel.data_words(&buf);
                buf.clear();
            }
        }
        if !buf.is_empty() {
            let mut w = self.w.borrow_mut();
            w.note_bus();
            w.panel.data_words(&buf);
        }
        Ok(())
    }

    fn send_repeated_pixel<const N: usize>(&mut self, pixel: [Wd; N], count: u32) -> Result<(), Fault> {
        let mut w = self.w.borrow_mut();
        let r = w.op(Src::Iface);
        if w.raw_on {
            let t = w.now_ns;
            w.raw.push(Raw::Iface {
                what: "repeat",
                t,
                ok: r.is_ok(),
            });
        }
        r?;
        w.note_bus();
        let mut p = [0u16; 8];
        for (i, x) in pixel.iter().enumerate() {
            p[i] = x.to_u16();
        }
        if w.raw_on {
            w.raw.push(Raw::IfaceRepeat { pixel: p[..N].to_vec(), count });
        }
        w.panel.repeat(&p[..N], count as u64);
        Ok(())
    }
}

//! Byte-level decoders for the coverage-guided fuzz targets: bytes -> structured case.
//! Every byte string decodes to a case inside the domain the properties quantify over
//! (construction, not rejection), so the fuzzer spends its time in the driver, not in validation.

use crate::dut::type_compatible;
use crate::exec::ProgCase;
use crate::gen::supported;
use crate::models::{ModelId, ALL_MODELS};
use crate::props::c03::StreamCase;
use crate::props::c06::{SpiCase, SpiOp};
use crate::props::c07::{ParCase, ParOp};
use crate::types::*;

pub struct Rd<'a> {
    d: &'a [u8],
    i: usize,
}

impl<'a> Rd<'a> {
    pub fn new(d: &'a [u8]) -> Self {
        Rd { d, i: 0 }
    }
    pub fn left(&self) -> usize {
        self.d.len().saturating_sub(self.i)
    }
    pub fn u8(&mut self) -> u8 {
        let v = self.d.get(self.i).copied().unwrap_or(0);
        self.i += 1;
        v
    }
    pub fn u16(&mut self) -> u16 {
        u16::from_le_bytes([self.u8(), self.u8()])
    }
    pub fn u32(&mut self) -> u32 {
        u32::from_le_bytes([self.u8(), self.u8(), self.u8(), self.u8()])
    }
    pub fn bool(&mut self) -> bool {
        self.u8() & 1 == 1
    }
    /// value in 0..n (n > 0)
    pub fn below(&mut self, n: u32) -> u32 {
        if n <= 256 {
            self.u8() as u32 % n
        } else {
            self.u32() % n
        }
    }
}

/// models whose simulated frame memory is cheap to allocate per execution (small or sparse); the
/// drawing code under test is shared by all models
pub fn fuzz_models() -> Vec<ModelId> {
    ALL_MODELS
        .iter()
        .copied()
        .filter(|m| {
            let (w, h) = m.fb();
            let cells = w as u64 * h as u64;
            cells <= 32768 || cells > (1 << 22)
        })
        .collect()
}

pub fn config(r: &mut Rd, max_edge: u16) -> Config {
    let menu = fuzz_models();
    let model = menu[r.below(menu.len() as u32) as usize];
    let mut transport = match r.below(8) {
        0 | 1 | 2 => Transport::Rec8,
        3 => Transport::Rec16,
        4 => Transport::Spi { buf: 0 },
        5 => Transport::Par8,
        6 => Transport::Par16,
        _ => Transport::Rec8,
    };
    if !type_compatible(model, transport) {
        transport = match transport {
            Transport::Rec16 => Transport::Rec8,
            Transport::Par16 => Transport::Par8,
            t => t,
        };
    }
    if !supported(model, transport.kind()) {
        transport = match transport {
            Transport::Spi { .. } => Transport::Par8,
            Transport::Rec16 => Transport::Rec8,
            Transport::Par16 => Transport::Par8,
            t => t,
        };
    }
    if let Transport::Spi { .. } = transport {
        let n = (model.bits() as u16 + 7) / 8;
        transport = Transport::Spi { buf: (n + (r.u8() as u16 % 70)) as u32 };
    }
    let (fw, fh) = model.fb();
    let cap = if transport.pin_level() { max_edge.min(24) } else { max_edge };
    let w = 1 + (r.u16() % fw.min(cap));
    let h = 1 + (r.u16() % fh.min(cap));
    let pick_off = |r: &mut Rd, max: u16| -> u16 {
        match r.below(4) {
            0 => 0,
            1 => max,
            _ => {
                if max == 0 {
                    0
                } else {
                    r.u16() % (max + 1)
                }
            }
        }
    };
    let ox = pick_off(r, fw - w);
    let oy = pick_off(r, fh - h);
    let b = r.u8();
    Config {
        model,
        transport,
        w,
        h,
        ox,
        oy,
        orient: Orient { rot: b & 3, mirrored: b & 4 != 0 },
        bgr: b & 8 != 0,
        invert: b & 16 != 0,
        refresh_v: b & 32 != 0,
        refresh_h: b & 64 != 0,
        reset_pin: false,
    }
}

fn wild(r: &mut Rd, l: u32) -> i32 {
    let l = l as i32;
    match r.below(16) {
        0..=6 => (r.u16() as i32) % l,
        7 => -1,
        8 => l,
        9 => 65535,
        10 => 65536 + (r.u16() as i32) % l,
        11 => -65536 + (r.u16() as i32) % l,
        12 => i32::MIN.wrapping_add((r.u16() as i32) % l),
        13 => i32::MAX - (r.u8() as i32),
        14 => (r.u16() as i32) - 300,
        _ => r.u32() as i32,
    }
}

fn interval(r: &mut Rd, l: u32) -> (i32, u32) {
    let li = l as i64;
    match r.below(10) {
        0..=2 => {
            let a = r.u16() as u32 % l;
            let b = r.u16() as u32 % l;
            (a.min(b) as i32, a.max(b) - a.min(b) + 1)
        }
        3 => {
            let k = 1 + r.u8() as i64 % 40;
            let e = r.u16() as i64 % li;
            ((-k) as i32, (e + k + 1) as u32)
        }
        4 => {
            let s = r.u16() as i64 % li;
            let k = 1 + r.u8() as i64 % 40;
            (s as i32, (li - s + k) as u32)
        }
        5 => {
            let a = 1 + r.u8() as i64 % 40;
            let b = 1 + r.u8() as i64 % 40;
            ((-a) as i32, (li + a + b) as u32)
        }
        6 => (wild(r, l), 0),
        7 => {
            let a = 65_530 + r.u16() as i64;
            ((-a) as i32, (li + a + (r.u16() as i64)) as u32)
        }
        8 => (wild(r, l), 1 + r.u8() as u32 % 8),
        _ => (0, l),
    }
}

fn rect(r: &mut Rd, lw: u32, lh: u32) -> Rect {
    let (x, w) = interval(r, lw);
    let (y, h) = interval(r, lh);
    let mut rc = Rect { x, y, w, h };
    // keep the rectangle a valid embedded-graphics rectangle
    if (rc.x as i64 + rc.w as i64) > i32::MAX as i64 {
        rc.w = (i32::MAX as i64 - rc.x as i64) as u32;
    }
    if (rc.y as i64 + rc.h as i64) > i32::MAX as i64 {
        rc.h = (i32::MAX as i64 - rc.y as i64) as u32;
    }
    if rc.w > 0 && rc.area() >= (1u64 << 32) {
        rc.h = (((1u64 << 32) - 1) / rc.w as u64) as u32;
    }
    rc
}

fn stream_len(r: &mut Rd, area: u64) -> StreamLen {
    match r.below(8) {
        0 | 1 | 2 => StreamLen::Finite(area),
        3 => StreamLen::Infinite,
        4 => StreamLen::Finite(0),
        5 => StreamLen::Finite(area.saturating_sub(1)),
        6 => StreamLen::Finite(area.saturating_add(1 + r.u8() as u64)),
        _ => StreamLen::Finite(if area == 0 { 0 } else { r.u32() as u64 % (area.min(1 << 20) + 1) }),
    }
}

pub fn points(r: &mut Rd, lw: u32, lh: u32, max_pts: usize) -> Vec<(i32, i32)> {
    let mut pts = Vec::new();
    let segs = 1 + r.below(8);
    for _ in 0..segs {
        if pts.len() >= max_pts || r.left() == 0 {
            break;
        }
        let inb = r.below(4) != 0;
        let (x, y) = if inb { ((r.u16() as u32 % lw) as i32, (r.u16() as u32 % lh) as i32) } else { (wild(r, lw), wild(r, lh)) };
        match r.below(8) {
            0 | 1 | 2 => {
                // left-to-right run, lengths around the capacities
                let n = match r.below(8) {
                    0 => 49,
                    1 => 50,
                    2 => 51,
                    3 => 100,
                    4 => 101,
                    5 => 150,
                    _ => 1 + r.u8() as i32,
                };
                for i in 0..n {
                    pts.push((x.wrapping_add(i), y));
                }
            }
            3 => {
                let n = 1 + r.u8() as i32 % 60;
                let rows = 1 + r.u8() as i32 % 8;
                for j in 0..rows {
                    for i in 0..n {
                        pts.push((x.wrapping_add(i), y.wrapping_add(j)));
                    }
                }
            }
            4 => {
                let n = 1 + r.u8() as i32 % 30;
                for i in 0..n {
                    pts.push((x.wrapping_sub(i), y));
                }
            }
            5 => {
                let n = 1 + r.u8() as i32 % 30;
                for i in 0..n {
                    pts.push((x, y.wrapping_add(i)));
                }
            }
            6 => {
                for _ in 0..(2 + r.below(3)) {
                    pts.push((x, y));
                }
            }
            _ => pts.push((x, y)),
        }
    }
    pts.truncate(max_pts);
    pts
}

/// bytes -> drawing program (all entry points, arbitrary coordinates)
pub fn prog_case(data: &[u8]) -> ProgCase {
    let mut r = Rd::new(data);
    let cfg = config(&mut r, 64);
    let (lw, lh) = cfg.logical_size(cfg.orient);
    let n = 1 + r.below(5);
    let mut ops = Vec::new();
    for _ in 0..n {
        let seed = if r.bool() { r.below(3) + 1 } else { r.u32() };
        let op = match r.below(8) {
            0 => DrawOp::SetPixel { x: (r.u16() as u32 % lw) as u16, y: (r.u16() as u32 % lh) as u16, seed },
            1 => {
                let a = (r.u16() as u32 % lw, r.u16() as u32 % lh);
                let b = (r.u16() as u32 % lw, r.u16() as u32 % lh);
                let (sx, ex) = (a.0.min(b.0), a.0.max(b.0).min(a.0.min(b.0) + 40));
                let (sy, ey) = (a.1.min(b.1), a.1.max(b.1).min(a.1.min(b.1) + 40));
                let area = (ex - sx + 1) * (ey - sy + 1);
                DrawOp::SetPixels { sx: sx as u16, sy: sy as u16, ex: ex as u16, ey: ey as u16, n: if r.bool() { area } else { r.u16() as u32 % (area + 1) }, seed }
            }
            2 | 3 => DrawOp::DrawIter { pts: points(&mut r, lw, lh, 600), seed },
            4 | 5 => {
                let rc = rect(&mut r, lw, lh);
                DrawOp::FillContiguous { rect: rc, len: stream_len(&mut r, rc.area()), seed }
            }
            6 => DrawOp::FillSolid { rect: rect(&mut r, lw, lh), seed },
            _ => DrawOp::Clear { seed },
        };
        ops.push(op);
        if r.left() == 0 {
            break;
        }
    }
    ProgCase { cfg, ops }
}

/// bytes -> pixel stream for the batching logic (wide windows)
pub fn stream_case(data: &[u8]) -> StreamCase {
    let mut r = Rd::new(data);
    let cfg = config(&mut r, 160);
    let (lw, lh) = cfg.logical_size(cfg.orient);
    let seed = r.u32();
    let pts = points(&mut r, lw, lh, 1500);
    StreamCase { cfg, pts, seed }
}

pub fn spi_case(data: &[u8]) -> SpiCase {
    let mut r = Rd::new(data);
    let n = 1 + r.below(4) as u8;
    let buf = n as u32 + r.u8() as u32 % 80;
    let cap = buf / n as u32;
    let count = |r: &mut Rd| -> u32 {
        match r.below(8) {
            0 => 0,
            1 => 1,
            2 => cap,
            3 => cap + 1,
            4 => cap.saturating_sub(1),
            5 => cap * (1 + r.below(5)),
            _ => r.u16() as u32 % (6 * cap + 4),
        }
    };
    let mut ops = Vec::new();
    for _ in 0..(1 + r.below(8)) {
        let op = match r.below(3) {
            0 => {
                let cmd = r.u8();
                let len = r.below(21);
                SpiOp::Cmd { cmd, args: (0..len).map(|_| r.u8()).collect() }
            }
            1 => SpiOp::Pixels { count: count(&mut r), seed: r.u32() },
            _ => {
                let pal = r.below(4);
                let pixel: Vec<u8> = if pal == 0 { (0..n).map(|_| r.u8()).collect() } else { (0..n).map(|j| (0x21u8).wrapping_mul(pal as u8).wrapping_add(j * 0x35)).collect() };
                SpiOp::Repeat { pixel, count: count(&mut r) }
            }
        };
        ops.push(op);
        if r.left() == 0 {
            break;
        }
    }
    let mut faults = Vec::new();
    let late = r.left() > 0 && r.bool();
    while r.left() >= 3 && faults.len() < 2 {
        faults.push((r.below(8) as u8, r.u16() % 40));
    }
    SpiCase { n, buf, ops, alt: None, faults, late }
}

pub fn par_case(data: &[u8]) -> ParCase {
    let mut r = Rd::new(data);
    let wide = r.bool();
    let n = 1 + r.below(3) as u8;
    let base = r.u16();
    let word = |r: &mut Rd| -> u16 {
        match r.below(6) {
            0 | 1 => base,
            2 => base ^ (1 << r.below(16)),
            3 => 0,
            4 => 0xffff,
            _ => r.u16(),
        }
    };
    let mut ops = Vec::new();
    for _ in 0..(1 + r.below(6)) {
        let op = match r.below(3) {
            0 => {
                let cmd = if r.bool() { base as u8 } else { r.u8() };
                let len = r.below(19);
                ParOp::Cmd { cmd, args: (0..len).map(|_| if r.bool() { base as u8 } else { r.u8() }).collect() }
            }
            1 => {
                let k = r.below(40);
                ParOp::Pixels { px: (0..k).map(|_| (0..n).map(|_| word(&mut r)).collect()).collect() }
            }
            _ => {
                let pixel: Vec<u16> = if r.bool() {
                    let v = word(&mut r);
                    vec![v; n as usize]
                } else {
                    (0..n).map(|_| word(&mut r)).collect()
                };
                ParOp::Repeat { pixel, count: match r.below(4) { 0 => 0, 1 => 1, _ => r.u16() as u32 % 300 } }
            }
        };
        ops.push(op);
        if r.left() == 0 {
            break;
        }
    }
    // trailing bytes (if any): pin faults inside the transfers
    let mut faults = Vec::new();
    let late = r.left() > 0 && r.bool();
    while r.left() >= 3 && faults.len() < 2 {
        faults.push((r.below(6) as u8, r.u16() % 600));
    }
    ParCase { wide, n, ops, faults, late }
}

pub fn model_count() -> usize {
    let _ = ModelId::E1x1;
    ALL_MODELS.len()
}

//! C05 — every colour value is encoded on the bus as the announced pixel format requires.

use super::{Ctx, Tier};
use crate::dut::{build, new_world, type_compatible, ColourStream};
use crate::gen::supported;
use crate::models::{builtin_models, ModelId};
use crate::rig::Raw;
use crate::runner::*;
use crate::types::*;
use serde::{Deserialize, Serialize};
use serde_json::Value;

#[derive(Clone, Debug, PartialEq, Eq, Hash, Serialize, Deserialize)]
pub struct ColourCase {
    pub model: ModelId,
    pub transport: Transport,
    /// first colour value of the chunk and number of values
    pub start: u32,
    pub len: u32,
}

/// the encoding a MIPI-DCS controller expects, written from the specification
fn spec_words(bits: u32, bus_bits: u8, v: u32) -> Vec<u16> {
    match (bits, bus_bits) {
        (16, 8) => vec![((v >> 8) & 0xff) as u16, (v & 0xff) as u16],
        (16, 16) => vec![v as u16],
        // RGB666 on an 8-bit bus: R, G, B, six bits left-aligned (the two low bits are don't-care)
        (18, 8) => vec![(((v >> 12) & 63) << 2) as u16, (((v >> 6) & 63) << 2) as u16, ((v & 63) << 2) as u16],
        _ => vec![],
    }
}

pub fn check(c: &ColourCase, info: &mut CaseInfo) -> Result<(), String> {
    let bits = c.model.bits();
    let mut cfg = Config::full(c.model, c.transport);
    // a one-row window as wide as the framebuffer allows
    let (fw, _fh) = c.model.fb();
    let width = fw.min(128);
    cfg.w = width;
    cfg.h = 1;
    let w = new_world(&cfg);
    let mut d = build(&cfg, &w).map_err(|e| format!("init failed: {:?}", e))?;
    let raw_level = !c.transport.pin_level();
    let bus_bits = c.transport.bus_bits();
    let mask = (1u32 << bits) - 1;
    let mut v = c.start;
    let end = c.start + c.len;
    while v < end {
        let n = (end - v).min(width as u32);
        // (1) as a pixel stream: set_pixels over n cells, colours v..v+n
        struct Seq {
            v: u32,
            end: u32,
        }
        impl Iterator for Seq {
            type Item = u32;
            fn next(&mut self) -> Option<u32> {
                if self.v < self.end {
                    self.v += 1;
                    Some(self.v - 1)
                } else {
                    None
                }
            }
        }
        {
            let mut wb = w.borrow_mut();
            wb.raw_on = raw_level;
            wb.raw.clear();
        }
        let mut it = Seq { v, end: v + n };
        d.set_pixels(0, 0, (n - 1) as u16, 0, &mut it).map_err(|e| format!("set_pixels failed: {:?}", e))?;
        let stream_words: Vec<Vec<u16>> = {
            let wb = w.borrow();
            if let Some(e) = wb.panel.errors.first() {
                return Err(format!("malformed traffic: {}", e));
            }
            for i in 0..n {
                let got = wb.panel.mem.get(i, 0);
                if got != ((v + i) & mask) {
                    return Err(format!(
                        "{} on {}: colour {:#x} sent as a pixel stream is decoded by the controller (COLMOD {:#04x}) as {:#x}",
                        c.model.name(),
                        c.transport.label(),
                        v + i,
                        wb.panel.colmod.unwrap_or(0),
                        got
                    ));
                }
            }
            // the words of the burst in bus order, however the driver grouped them into interface calls
            let flat = flat_words(&wb.raw);
            let wpp = spec_words(bits, bus_bits, v).len();
            if raw_level && flat.len() != wpp * n as usize {
                return Err(format!("a stream of {} pixels put {} words on the bus, the announced format requires {} per pixel", n, flat.len(), wpp));
            }
            flat.chunks(wpp.max(1)).map(|c| c.to_vec()).collect()
        };
        if raw_level {
            for (i, wds) in stream_words.iter().enumerate() {
                let want = spec_words(bits, bus_bits, v + i as u32);
                // 18 bpp: the two low bits are don't-care in hardware; compare the significant bits
                let eq = if bits == 18 { wds.len() == want.len() && wds.iter().zip(&want).all(|(a, b)| a & 0xfc == b & 0xfc && *a <= 0xff) } else { *wds == want };
                if !eq {
                    return Err(format!("colour {:#x}: words on the bus {:04x?}, the announced format requires {:04x?}", v + i as u32, wds, want));
                }
            }
        }
        // (2) as a solid fill: one pixel per value; same words, same decoded colour
        for i in 0..n {
            let val = v + i;
            {
                let mut wb = w.borrow_mut();
                wb.raw.clear();
            }
            d.fill_solid(&Rect { x: i as i32, y: 0, w: 1, h: 1 }, val).map_err(|e| format!("fill_solid failed: {:?}", e))?;
            let wb = w.borrow();
            let got = wb.panel.mem.get(i, 0);
            if got != (val & mask) {
                return Err(format!("colour {:#x} sent as a solid fill is decoded by the controller as {:#x}", val, got));
            }
            drop(wb);
            // a solid fill after intervening streamed traffic must encode the colour the same way
            // (the fill before and the one after use the same value; the stream in between
            // overwrites whatever the transport staged)
            if i % 8 == 0 {
                let other = (val ^ 0x2a5) & mask;
                d.set_pixel(i as u16, 0, other).map_err(|e| format!("set_pixel failed: {:?}", e))?;
                d.fill_solid(&Rect { x: 0, y: 0, w: (i + 1).min(3), h: 1 }, val).map_err(|e| format!("fill_solid failed: {:?}", e))?;
                let wb = w.borrow();
                for x in 0..(i + 1).min(3) {
                    let got = wb.panel.mem.get(x, 0);
                    if got != (val & mask) {
                        return Err(format!(
                            "colour {:#x}: solid fill, streamed pixel, then the same solid fill again: the second fill is decoded as {:#x}",
                            val, got
                        ));
                    }
                }
                drop(wb);
                // restore the cells for the bookkeeping below
                for x in 0..(i + 1).min(3) {
                    d.set_pixel(x as u16, 0, (v + x) & mask).map_err(|e| format!("set_pixel failed: {:?}", e))?;
                }
                d.set_pixel(i as u16, 0, val).map_err(|e| format!("set_pixel failed: {:?}", e))?;
                w.borrow_mut().raw.clear();
                d.fill_solid(&Rect { x: i as i32, y: 0, w: 1, h: 1 }, val).map_err(|e| format!("fill_solid failed: {:?}", e))?;
            }
            let wb = w.borrow();
            if raw_level {
                let rep = flat_words(&wb.raw);
                if rep != stream_words[i as usize] {
                    return Err(format!(
                        "colour {:#x}: a solid fill encodes it as {:04x?}, a pixel stream as {:04x?}",
                        val, rep, stream_words[i as usize]
                    ));
                }
            }
        }
        v += n;
    }
    w.borrow_mut().raw_on = false;
    info.nontrivial = true;
    info.label(c.transport.label());
    let _ = ColourStream::next;
    Ok(())
}

/// pixel words handed to the interface, in bus order (streamed pixels and repeats alike)
fn flat_words(raw: &[Raw]) -> Vec<u16> {
    let mut out = Vec::new();
    for r in raw {
        match r {
            Raw::IfacePix { words } => out.extend_from_slice(words),
            Raw::IfaceRepeat { pixel, count } => {
                for _ in 0..(*count).min(1 << 16) {
                    out.extend_from_slice(pixel);
                }
            }
            _ => {}
        }
    }
    out
}

fn cases(models: &[ModelId], transports: &[Transport], chunk: u32) -> Vec<ColourCase> {
    let mut out = Vec::new();
    for &m in models {
        for &t in transports {
            if !type_compatible(m, t) || !supported(m, t.kind()) {
                continue;
            }
            let total = 1u32 << m.bits();
            let mut s = 0;
            while s < total {
                out.push(ColourCase { model: m, transport: t, start: s, len: chunk.min(total - s) });
                s += chunk;
            }
        }
    }
    out
}

pub fn run(ctx: &Ctx) -> Report {
    let mut rep = Report::new("C05", "exploration");
    rep.assumptions = vec![
        "the Panel decodes pixel words with the COLMOD the model's own init announced and the width of the bus in use".into(),
        "RGB666: the two least significant bits of each byte are don't-care, as in hardware".into(),
    ];
    let mut sec = Section::new(
        &format!("all-colours-interface-level[{}]", ctx.variant),
        "every built-in model after its real init, every value of its colour type (65536 Rgb565 / 262144 Rgb666), on 8-bit and (Rgb565) 16-bit recording interfaces, once through a pixel stream and once through a solid fill; oracle: the controller decodes the drawn value, the words equal the specified encoding, stream and fill encodings are identical; each evaluation is a chunk of 4096 values",
    );
    sec.exhaustive = true;
    let c = cases(&builtin_models(), &[Transport::Rec8, Transport::Rec16], 4096);
    let values: u64 = c.iter().map(|x| x.len as u64).sum();
    sec.extra.insert("colour_values_checked".into(), serde_json::json!(values * 2));
    run_enumerated(&mut sec, c, ctx.workers, check, |c, _| format!("c05:{}:{}", c.model.name(), c.transport.label()));
    rep.sections.push(sec);

    let mut sec = Section::new(
        &format!("all-colours-pin-level[{}]", ctx.variant),
        "all values through the real transports (SPI with an odd buffer length, 8-bit and 16-bit parallel at pin level) for one model per colour type (all built-in models in thorough)",
    );
    sec.exhaustive = true;
    let models = if ctx.tier == Tier::Thorough { builtin_models() } else { vec![ModelId::ST7789, ModelId::ILI9488Rgb666] };
    let c = cases(&models, &[Transport::Spi { buf: 13 }, Transport::Par8, Transport::Par16], 2048);
    run_enumerated(&mut sec, c, ctx.workers, check, |c, _| format!("c05:{}:{}", c.model.name(), c.transport.label()));
    rep.sections.push(sec);

    let mut sec = Section::new(
        &format!("all-models-all-transports[{}]", ctx.variant),
        "every built-in model on every transport it supports at pin level (SPI, 8-bit and 16-bit parallel), 2048 colour values spread over the whole range (a model that announces a pixel format which does not match what is sent on one particular interface kind shows with any colour)",
    );
    sec.exhaustive = false;
    let mut c = Vec::new();
    for &m in &builtin_models() {
        for t in [Transport::Spi { buf: 16 }, Transport::Par8, Transport::Par16] {
            if !type_compatible(m, t) || !supported(m, t.kind()) {
                continue;
            }
            let total = 1u32 << m.bits();
            // 8 chunks of 256 consecutive values, spread over the range
            for i in 0..8u32 {
                c.push(ColourCase { model: m, transport: t, start: (total / 8) * i + 97 * i, len: 256 });
            }
        }
    }
    run_enumerated(&mut sec, c, ctx.workers, check, |c, _| format!("c05:{}:{}", c.model.name(), c.transport.label()));
    rep.sections.push(sec);

    // "a solid fill encodes a colour identically to a per-pixel stream" over histories: what a transport
    // keeps staged from an earlier fill or stream must not leak into the encoding of a later fill
    let mut sec = Section::new(
        &format!("fill-and-stream-sequences[{}]", ctx.variant),
        "pin-level transports (SPI with generated buffer lengths, 8/16-bit parallel), every model: 2..6 calls from {fill_solid, clear, set_pixels, fill_contiguous} with colours from a palette of two or three values and rectangles of different sizes; every cell is decoded by the controller model and compared with the colour drawn there last (the C01 oracle); non-trivial as for C01",
    );
    run_generated(&mut sec, ctx.seed ^ 0x55, ctx.cases(40_000, 600_000), ctx.workers, fill_sequences, super::c01::check, |_, r| format!("c05:seq:{}", r.chars().take(30).collect::<String>()));
    rep.sections.push(sec);
    rep
}

fn fill_sequences() -> proptest::strategy::BoxedStrategy<crate::exec::ProgCase> {
    use proptest::prelude::*;
    crate::gen::config(crate::gen::ConfigMenu::pin_level())
        .prop_flat_map(|cfg| {
            let (lw, lh) = cfg.logical_size(cfg.orient);
            // seeds whose low bits select the palette / uniform colour modes of `colour_of`
            let seed = prop_oneof![3 => (0u32..3).prop_map(|k| 7 + 8 * k), 2 => (0u32..3).prop_map(|k| UNIFORM_SEED_BASE + k), 1 => any::<u32>()];
            let rect = crate::gen::inner_rect(lw, lh, 1 << 10);
            let op = prop_oneof![
                4 => (rect.clone(), seed.clone()).prop_map(|(rect, seed)| DrawOp::FillSolid { rect, seed }),
                1 => seed.clone().prop_map(|seed| DrawOp::Clear { seed }),
                1 => (rect.clone(), seed.clone()).prop_map(|(rect, seed)| DrawOp::FillContiguous { rect, len: StreamLen::Infinite, seed }),
                1 => (rect, seed).prop_map(|(r, seed)| DrawOp::SetPixels { sx: r.x as u16, sy: r.y as u16, ex: (r.x as u32 + r.w - 1) as u16, ey: (r.y as u32 + r.h - 1) as u16, n: (r.w * r.h) as u32, seed }),
            ];
            (Just(cfg), proptest::collection::vec(op, 2..=6))
        })
        .prop_map(|(cfg, ops)| crate::exec::ProgCase { cfg, ops })
        .boxed()
}

pub fn replay(section: &str, case: &Value) -> Result<(), String> {
    if section.starts_with("fill-and-stream-sequences") {
        return super::c01::check(&super::de::<crate::exec::ProgCase>(case)?, &mut CaseInfo::default());
    }
    check(&super::de::<ColourCase>(case)?, &mut CaseInfo::default())
}

//! C11 — model initialisation programs the controller consistently with the options.
//! C17's reset-first oracle lives here too (`judge_reset`), since both look at one init.

use super::{de, Ctx, Tier};
use crate::dut::{build, new_world, type_compatible, DutErr};
use crate::gen::supported;
use crate::models::{builtin_models, dispatch_model, HColor, ModelId, ModelVisitor};
use crate::oracle::{derive_orientation_bits, madctl_expected};
use crate::panel::Tr;
use crate::rig::*;
use crate::runner::*;
use crate::types::*;
use mipidsi::dcs::DcsCommand;
use mipidsi::interface::InterfacePixelFormat;
use mipidsi::models::{Model, ModelInitError};
use mipidsi::options::{ColorInversion, ColorOrder, HorizontalRefreshOrder, ModelOptions, RefreshOrder, VerticalRefreshOrder};
use mipidsi::ConfigurationError;
use serde::{Deserialize, Serialize};
use serde_json::Value;

#[derive(Clone, Debug, PartialEq, Eq, Hash, Serialize, Deserialize)]
pub enum Via {
    /// Model::init called directly on a recording interface of the given kind
    Direct(Kind),
    /// through Builder::init and a Display
    Builder(Transport),
}

#[derive(Clone, Debug, PartialEq, Eq, Hash, Serialize, Deserialize)]
pub struct InitCase {
    pub cfg: Config,
    pub via: Via,
}

thread_local! { static TABLE: [u8; 8] = derive_orientation_bits(); }

/// end-of-init oracle on the Panel
pub fn judge_panel(w: &World, cfg: &Config) -> Result<(), String> {
    let p = &w.panel;
    if let Some(e) = p.errors.first() {
        return Err(format!("malformed command during init: {}", e));
    }
    if let Some(e) = w.decode_errors.first() {
        return Err(format!("bus decode error during init: {}", e));
    }
    if p.sleeping {
        return Err("controller is still in sleep mode after init".into());
    }
    if !p.display_on {
        return Err("display is not switched on after init".into());
    }
    let want = TABLE.with(|t| madctl_expected(t, cfg.orient, cfg.bgr, cfg.refresh_v, cfg.refresh_h));
    if p.madctl != want {
        return Err(format!(
            "address mode after init is {:#010b}; encoding of bgr={} {:?} refresh(v={},h={}) is {:#010b}",
            p.madctl, cfg.bgr, cfg.orient, cfg.refresh_v, cfg.refresh_h, want
        ));
    }
    match p.dbi_bpp() {
        Some(b) if b as u32 == cfg.model.bits() => {}
        other => {
            return Err(format!(
                "interface pixel format announces {:?} bits per pixel (COLMOD {:?}), the model's colour type has {}",
                other,
                p.colmod,
                cfg.model.bits()
            ))
        }
    }
    if p.inverted != cfg.invert {
        return Err(format!("colour inversion is {} after init, chosen {}", p.inverted, cfg.invert));
    }
    if p.pixels_total != 0 {
        return Err(format!("init wrote pixel memory ({} memory-write commands, {} pixels)", p.ramwr_count, p.pixels_total));
    }
    let Some((_, t)) = p.sleep_log.iter().rev().find(|(op, _)| *op == 0x11) else {
        return Err("no sleep-out command during init".into());
    };
    if w.now_ns < t + 120_000_000 {
        return Err(format!("init returned {} us after the sleep-out command (at least 120000 required)", (w.now_ns - t) / 1000));
    }
    Ok(())
}

/// C17: reset comes first
pub fn judge_reset(w: &World, cfg: &Config, init_trace: &[Tr]) -> Result<(), String> {
    let n01 = init_trace.iter().filter(|t| matches!(t, Tr::Cmd { op: 0x01, .. })).count();
    if cfg.reset_pin {
        let log = &w.rst_log;
        if log.is_empty() {
            return Err("reset pin configured but never driven".into());
        }
        // The pulse that counts is the last one: the pin may be parked high first (a driver that
        // establishes the idle level before pulsing still "drives it low, waits, drives it high").
        if log.last().map(|e| e.0) != Some(true) || w.rst != Some(true) {
            return Err(if log.iter().any(|e| e.0) { "reset pin is not left high".into() } else { "reset pin is driven low and never released".to_string() });
        }
        let Some(last_lo) = log.iter().rposition(|e| !e.0) else {
            return Err("reset pin is never driven low (no reset pulse)".into());
        };
        let mut start = last_lo;
        while start > 0 && !log[start - 1].0 {
            start -= 1;
        }
        let hi = last_lo + 1;
        let (t_lo, t_hi) = (log[start].1, log[hi].1);
        if t_hi - t_lo < 10_000 {
            return Err(format!("reset pulse lasts {} ns, at least 10000 ns required", t_hi - t_lo));
        }
        if w.bus_while_reset != 0 {
            return Err(format!("{} words were put on the bus while the reset pin was low", w.bus_while_reset));
        }
        if let Some((ops, _)) = w.first_bus {
            if ops < log[hi].2 {
                return Err("bus traffic before the reset pin was high again".into());
            }
        }
        if n01 != 0 || w.panel.swreset_count != 0 {
            return Err("software reset sent although a reset pin is configured".into());
        }
    } else {
        match init_trace.first() {
            Some(Tr::Cmd { op: 0x01, args, .. }) if args.is_empty() => {}
            other => return Err(format!("without a reset pin the first thing on the bus must be the software reset, saw {:?}", other)),
        }
        if n01 != 1 {
            return Err(format!("software reset sent {} times", n01));
        }
        if !w.rst_log.is_empty() {
            return Err("reset pin driven although none is configured".into());
        }
    }
    Ok(())
}

struct DirectInit<'a> {
    cfg: &'a Config,
    kind: Kind,
}

impl<'a> ModelVisitor for DirectInit<'a> {
    type Out = Result<(), String>;
    fn visit<M>(self, _id: ModelId, mut m: M) -> Self::Out
    where
        M: Model + 'static,
        M::ColorFormat: HColor + InterfacePixelFormat<u8>,
    {
        let cfg = self.cfg;
        let (fw, fh) = cfg.model.fb();
        let bits = if self.kind == Kind::P16 { 16 } else { 8 };
        let w = World::new(fw as u32, fh as u32, bits);
        let mut opt = ModelOptions::with_all((cfg.w, cfg.h), (cfg.ox, cfg.oy));
        opt.color_order = if cfg.bgr { ColorOrder::Bgr } else { ColorOrder::Rgb };
        opt.orientation = cfg.orient.to_mipidsi();
        opt.invert_colors = if cfg.invert { ColorInversion::Inverted } else { ColorInversion::Normal };
        opt.refresh_order = RefreshOrder::new(
            if cfg.refresh_v { VerticalRefreshOrder::BottomToTop } else { VerticalRefreshOrder::TopToBottom },
            if cfg.refresh_h { HorizontalRefreshOrder::RightToLeft } else { HorizontalRefreshOrder::LeftToRight },
        );
        let mut clk = Clock { w: w.clone() };
        let r = match self.kind {
            Kind::Serial => m.init(&mut RecIface::<u8, KSerial>::new(&w), &mut clk, &opt),
            Kind::P8 => m.init(&mut RecIface::<u8, KP8>::new(&w), &mut clk, &opt),
            Kind::P16 => m.init(&mut RecIface::<u16, KP16>::new(&w), &mut clk, &opt),
        };
        let wb = w.borrow();
        let sup = supported(cfg.model, self.kind);
        match r {
            Ok(madctl) => {
                if !sup {
                    return Err(format!("{} accepted interface kind {:?}, which it cannot drive", cfg.model.name(), self.kind));
                }
                judge_panel(&wb, cfg)?;
                let mut b = [0u8; 16];
                let n = madctl.fill_params_buf(&mut b);
                if n != 1 || b[0] != wb.panel.madctl {
                    return Err(format!(
                        "init returned address mode {:#010b} but programmed {:#010b} into the controller",
                        b[0], wb.panel.madctl
                    ));
                }
                Ok(())
            }
            Err(ModelInitError::InvalidConfiguration(ConfigurationError::UnsupportedInterface)) => {
                if sup {
                    return Err(format!("{} refuses interface kind {:?}, which is supported today", cfg.model.name(), self.kind));
                }
                if wb.panel.cmd_count != 0 {
                    return Err(format!("unsupported interface refused only after {} commands were sent", wb.panel.cmd_count));
                }
                Ok(())
            }
            Err(ModelInitError::InvalidConfiguration(_)) => Err("init failed with another configuration error".into()),
            Err(ModelInitError::Interface(e)) => Err(format!("init failed with a bus error the bus did not produce: {:?}", e)),
        }
    }
}

pub fn check(c: &InitCase, info: &mut CaseInfo) -> Result<(), String> {
    crate::dut::install_panic_hook();
    let cfg = &c.cfg;
    info.nontrivial = true;
    match &c.via {
        Via::Direct(kind) => {
            info.label("direct");
            if !supported(cfg.model, *kind) {
                info.label("unsupported-kind");
            }
            let r = std::panic::catch_unwind(std::panic::AssertUnwindSafe(|| dispatch_model(cfg.model, DirectInit { cfg, kind: *kind })));
            match r {
                Ok(r) => r,
                Err(_) => Err("Model::init panicked".into()),
            }
        }
        Via::Builder(t) => {
            info.label("builder");
            info.label(t.label());
            let mut cfg = cfg.clone();
            cfg.transport = *t;
            let w = new_world(&cfg);
            // the D/C line may idle at any level before init (e.g. left high by an earlier session)
            w.borrow_mut().dc = match (cfg.h as u32 + cfg.ox as u32 + cfg.orient.index() as u32) % 3 {
                0 => None,
                1 => Some(true),
                _ => Some(false),
            };
            let sup = supported(cfg.model, t.kind());
            match build(&cfg, &w) {
                Ok(mut d) => {
                    if !sup {
                        return Err(format!("{} accepted interface kind {:?}", cfg.model.name(), t.kind()));
                    }
                    let trace = {
                        let mut wb = w.borrow_mut();
                        judge_panel(&wb, &cfg)?;
                        wb.panel.take_trace()
                    };
                    judge_reset(&w.borrow(), &cfg, &trace)?;
                    if d.is_sleeping() {
                        return Err("is_sleeping() is true after init".into());
                    }
                    // the cached address mode: set_orientation(same) must resend exactly the byte of init
                    let before = w.borrow().panel.madctl;
                    d.set_orientation(cfg.orient).map_err(|e| format!("set_orientation failed: {:?}", e))?;
                    let tr = w.borrow_mut().panel.take_trace();
                    // whether or not the driver resends an unchanged value, the controller must still
                    // hold the byte init programmed, and nothing but address-mode commands may be sent
                    let after = w.borrow().panel.madctl;
                    if after != before || tr.iter().any(|t| !matches!(t, Tr::Cmd { op: 0x36, .. })) {
                        return Err(format!(
                            "set_orientation(same orientation) after init sent {:?} and left address mode {:#010b}; the address mode programmed by init was {:#010b} (cached value differs)",
                            tr, after, before
                        ));
                    }
                    Ok(())
                }
                Err(DutErr::UnsupportedInterface) => {
                    if sup {
                        return Err(format!("{} refuses interface kind {:?}, which is supported today", cfg.model.name(), t.kind()));
                    }
                    let wb = w.borrow();
                    let allowed = if cfg.reset_pin { 0 } else { 1 };
                    if wb.panel.cmd_count > allowed {
                        return Err(format!("unsupported interface refused only after {} commands", wb.panel.cmd_count));
                    }
                    Ok(())
                }
                Err(e) => Err(format!("init failed: {:?}", e)),
            }
        }
    }
}

pub fn option_product(models: &[ModelId], vias: &dyn Fn(ModelId) -> Vec<Via>, reset_both: bool, seed: u64) -> Vec<InitCase> {
    let mut out = Vec::new();
    let mut k = seed;
    for &model in models {
        for via in vias(model) {
            for bgr in [false, true] {
                for orient in Orient::ALL {
                    for invert in [false, true] {
                        for (rv, rh) in [(false, false), (false, true), (true, false), (true, true)] {
                            for reset_pin in if reset_both && matches!(via, Via::Builder(_)) { vec![false, true] } else { vec![false] } {
                                // a valid size/offset, varied deterministically
                                k = crate::runner::splitmix(k);
                                let (fw, fh) = model.fb();
                                let w = 1 + (k % fw as u64) as u16;
                                let h = 1 + ((k >> 16) % fh as u64) as u16;
                                let ox = ((k >> 32) % (fw - w + 1) as u64) as u16;
                                let oy = ((k >> 48) % (fh - h + 1) as u64) as u16;
                                let mut via = via.clone();
                                if let Via::Builder(Transport::Spi { buf: 0 }) = via {
                                    // "some small staging buffer": lengths around the parameter counts of the init sequences
                                    const BUFS: [u32; 14] = [1, 2, 3, 4, 5, 6, 7, 9, 10, 12, 14, 15, 16, 17];
                                    via = Via::Builder(Transport::Spi { buf: BUFS[((k >> 24) % BUFS.len() as u64) as usize] });
                                }
                                let transport = match &via {
                                    Via::Builder(t) => *t,
                                    Via::Direct(_) => Transport::Rec8,
                                };
                                out.push(InitCase {
                                    cfg: Config { model, transport, w, h, ox, oy, orient, bgr, invert, refresh_v: rv, refresh_h: rh, reset_pin },
                                    via: via.clone(),
                                });
                            }
                        }
                    }
                }
            }
        }
    }
    // the geometries of common panel modules (a model's init may look at the window it is given)
    for &model in models {
        for via in vias(model) {
            for (w, h, ox, oy) in crate::gen::known_geometries(model) {
                for (i, orient) in [Orient::ALL[0], Orient::ALL[3], Orient::ALL[6]].into_iter().enumerate() {
                    for reset_pin in if reset_both && matches!(via, Via::Builder(_)) { vec![false, true] } else { vec![false] } {
                        let mut via = via.clone();
                        if let Via::Builder(Transport::Spi { buf: 0 }) = via {
                            via = Via::Builder(Transport::Spi { buf: 5 });
                        }
                        let transport = match &via {
                            Via::Builder(t) => *t,
                            Via::Direct(_) => Transport::Rec8,
                        };
                        out.push(InitCase {
                            cfg: Config { model, transport, w, h, ox, oy, orient, bgr: i == 1, invert: i == 2, refresh_v: i == 1, refresh_h: false, reset_pin },
                            via,
                        });
                    }
                }
            }
        }
    }
    out
}

fn sig(c: &InitCase, reason: &str) -> String {
    let kind = if reason.contains("address mode") {
        "madctl"
    } else if reason.contains("pixel format") {
        "colmod"
    } else if reason.contains("sleep") {
        "sleep"
    } else if reason.contains("switched on") {
        "dispon"
    } else if reason.contains("inversion") {
        "inversion"
    } else if reason.contains("interface kind") || reason.contains("unsupported") {
        "kind"
    } else if reason.contains("reset") {
        "reset"
    } else {
        "other"
    };
    format!("c11:{}:{}", c.cfg.model.name(), kind)
}

pub fn run(ctx: &Ctx) -> Report {
    let mut rep = Report::new("C11", "exploration");
    let scanned = crate::models::scan_repo_models();
    let menu: Vec<&str> = builtin_models().iter().map(|m| m.name()).collect();
    let missing: Vec<&String> = scanned.iter().filter(|s| !menu.contains(&s.as_str())).collect();
    rep.assumptions = vec![
        format!("built-in model menu: {} models; `impl Model for` found in /repo/src/models: {}; not in the menu: {:?}", menu.len(), scanned.len(), missing),
        "supported pairings frozen from the tree at the time of writing: every model accepts SPI and 8-bit parallel except ILI9486Rgb565 (no SPI); 16-bit parallel is accepted by all except GC9107 and RM67162".into(),
        "RM67162: DCS user commands are interpreted in manufacturer command page 0 only".into(),
    ];
    let models = builtin_models();
    let mut sec = Section::new(
        &format!("direct[{}]", ctx.variant),
        "every built-in model x 3 interface kinds (Model::init called directly, so Rgb666 models on 16-bit words are included) x 2 colour orders x 8 orientations x 2 inversions x 4 refresh orders, with a valid size/offset each; oracle on the simulated controller: awake, on, MADCTL = MIPI encoding, COLMOD DBI bits = bits of the colour type, inversion, no memory write, >= 120 ms after sleep-out, returned address mode == programmed one; unsupported kind refused before any command",
    );
    sec.exhaustive = true;
    let direct = |_m: ModelId| vec![Via::Direct(Kind::Serial), Via::Direct(Kind::P8), Via::Direct(Kind::P16)];
    run_enumerated(&mut sec, option_product(&models, &direct, false, ctx.seed), ctx.workers, check, sig);
    rep.sections.push(sec);

    let mut sec = Section::new(
        &format!("builder[{}]", ctx.variant),
        "every built-in model x transports reachable through Builder (recording interfaces, SPI with 32- and 1-byte buffers, 8-bit / 16-bit parallel at pin level with the D/C line idling undefined, high or low before init) x the same option product x reset pin yes/no; additionally the reset-first oracle and: set_orientation(same) resends exactly the byte programmed by init",
    );
    sec.exhaustive = true;
    let thorough = ctx.tier == Tier::Thorough;
    let _ = thorough;
    let builder = move |m: ModelId| {
        let mut v = vec![Via::Builder(Transport::Rec8)];
        if type_compatible(m, Transport::Rec16) {
            v.push(Via::Builder(Transport::Rec16));
        }
        v.push(Via::Builder(Transport::Spi { buf: 32 }));
        v.push(Via::Builder(Transport::Spi { buf: 1 }));
        v.push(Via::Builder(Transport::Par8));
        if type_compatible(m, Transport::Par16) {
            v.push(Via::Builder(Transport::Par16));
        }
        // buf 0 = a small length chosen per case (see option_product)
        v.push(Via::Builder(Transport::Spi { buf: 0 }));
        v
    };
    run_enumerated(&mut sec, option_product(&models, &builder, true, ctx.seed ^ 11), ctx.workers, check, sig);
    rep.sections.push(sec);
    rep
}

pub fn replay(_section: &str, case: &Value) -> Result<(), String> {
    check(&de::<InitCase>(case)?, &mut CaseInfo::default())
}

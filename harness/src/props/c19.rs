//! C19 — the test image really diagnoses border, orientation and colour settings.

use super::{de, Ctx, Tier};
use crate::exec::Session;
use crate::gen;
use crate::oracle::to_phys;
use crate::panel::UNTOUCHED;
use crate::runner::*;
use crate::types::*;
use embedded_graphics_core::draw_target::DrawTarget;
use embedded_graphics_core::geometry::Size;
use embedded_graphics_core::pixelcolor::{Rgb565, Rgb666, Rgb888, RgbColor};
use embedded_graphics_core::{Drawable, Pixel};
use mipidsi::TestImage;
use proptest::prelude::*;
use serde::{Deserialize, Serialize};
use serde_json::Value;

/// a plain clipping framebuffer of our own
pub struct Canvas<C> {
    /// top-left corner of the bounding box (draw targets need not start at the origin,
    /// e.g. `display.clipped(&area)` or a translated target)
    pub x0: i32,
    pub y0: i32,
    pub w: u32,
    pub h: u32,
    pub cells: Vec<Option<C>>,
    pub oob_attempts: u64,
}

impl<C: RgbColor> Canvas<C> {
    pub fn new(w: u32, h: u32) -> Self {
        Canvas { x0: 0, y0: 0, w, h, cells: vec![None; (w as usize) * (h as usize)], oob_attempts: 0 }
    }
    pub fn at(x0: i32, y0: i32, w: u32, h: u32) -> Self {
        Canvas { x0, y0, w, h, cells: vec![None; (w as usize) * (h as usize)], oob_attempts: 0 }
    }
    pub fn get(&self, x: u32, y: u32) -> Option<C> {
        self.cells[(y * self.w + x) as usize]
    }
}
impl<C: RgbColor> embedded_graphics_core::geometry::Dimensions for Canvas<C> {
    fn bounding_box(&self) -> embedded_graphics_core::primitives::Rectangle {
        embedded_graphics_core::primitives::Rectangle::new(embedded_graphics_core::geometry::Point::new(self.x0, self.y0), Size::new(self.w, self.h))
    }
}
impl<C: RgbColor> DrawTarget for Canvas<C> {
    type Color = C;
    type Error = core::convert::Infallible;
    fn draw_iter<I: IntoIterator<Item = Pixel<C>>>(&mut self, pixels: I) -> Result<(), Self::Error> {
        for Pixel(p, c) in pixels {
            let (x, y) = (p.x as i64 - self.x0 as i64, p.y as i64 - self.y0 as i64);
            if x >= 0 && y >= 0 && x < self.w as i64 && y < self.h as i64 {
                self.cells[(y as u32 * self.w + x as u32) as usize] = Some(c);
            } else {
                self.oob_attempts += 1;
            }
        }
        Ok(())
    }
}

#[derive(Clone, Copy, Debug, PartialEq, Eq, Hash, Serialize, Deserialize)]
pub enum ColourType {
    Rgb565,
    Rgb666,
    Rgb888,
}

#[derive(Clone, Debug, PartialEq, Eq, Hash, Serialize, Deserialize)]
pub struct SizeCase {
    pub w: u32,
    pub h: u32,
    pub colour: ColourType,
    /// top-left corner of the target's bounding box
    #[serde(default)]
    pub origin: (i32, i32),
}

/// picture as classes: 0 unpainted, 1 white, 2 red, 3 green, 4 blue, 5 other
fn classify<C: RgbColor>(c: Option<C>) -> u8 {
    match c {
        None => 0,
        Some(c) if c == C::WHITE => 1,
        Some(c) if c == C::RED => 2,
        Some(c) if c == C::GREEN => 3,
        Some(c) if c == C::BLUE => 4,
        Some(_) => 5,
    }
}

fn render<C: RgbColor>(w: u32, h: u32) -> Result<Vec<u8>, String> {
    render_at::<C>(w, h, (0, 0))
}

fn render_at<C: RgbColor>(w: u32, h: u32, origin: (i32, i32)) -> Result<Vec<u8>, String> {
    let mut cv = Canvas::<C>::at(origin.0, origin.1, w, h);
    let r = std::panic::catch_unwind(std::panic::AssertUnwindSafe(|| TestImage::<C>::new().draw(&mut cv)));
    match r {
        Err(_) => Err(format!("TestImage panicked on a {}x{} target", w, h)),
        Ok(Err(_)) => unreachable!(),
        Ok(Ok(())) => Ok(cv.cells.iter().map(|c| classify(*c)).collect()),
    }
}

fn render_ct(w: u32, h: u32, ct: ColourType) -> Result<Vec<u8>, String> {
    render_ct_at(w, h, ct, (0, 0))
}

fn render_ct_at(w: u32, h: u32, ct: ColourType, origin: (i32, i32)) -> Result<Vec<u8>, String> {
    match ct {
        ColourType::Rgb565 => render_at::<Rgb565>(w, h, origin),
        ColourType::Rgb666 => render_at::<Rgb666>(w, h, origin),
        ColourType::Rgb888 => render_at::<Rgb888>(w, h, origin),
    }
}

/// the predicates of the property on a class picture of size w x h (w, h >= 32)
pub fn judge(pic: &[u8], w: u32, h: u32) -> Result<(), String> {
    let at = |x: u32, y: u32| pic[(y * w + x) as usize];
    // every pixel painted
    if let Some(i) = pic.iter().position(|c| *c == 0) {
        return Err(format!("pixel ({},{}) of a {}x{} target is never painted", i as u32 % w, i as u32 / w, w, h));
    }
    // outermost ring pure white, ring just inside: no white pixel
    for x in 0..w {
        for y in [0, h - 1] {
            if at(x, y) != 1 {
                return Err(format!("border pixel ({},{}) of a {}x{} target is not white", x, y, w, h));
            }
        }
    }
    for y in 0..h {
        for x in [0, w - 1] {
            if at(x, y) != 1 {
                return Err(format!("border pixel ({},{}) of a {}x{} target is not white", x, y, w, h));
            }
        }
    }
    for x in 1..w - 1 {
        for y in [1, h - 2] {
            if at(x, y) == 1 {
                return Err(format!("pixel ({},{}) just inside the border of a {}x{} target is white: the frame is not exactly one pixel", x, y, w, h));
            }
        }
    }
    for y in 1..h - 1 {
        for x in [1, w - 2] {
            if at(x, y) == 1 {
                return Err(format!("pixel ({},{}) just inside the border of a {}x{} target is white: the frame is not exactly one pixel", x, y, w, h));
            }
        }
    }
    // red left of green left of blue (set based)
    let range = |cls: u8| -> Option<(u32, u32)> {
        let mut lo = u32::MAX;
        let mut hi = 0;
        let mut any = false;
        for y in 0..h {
            for x in 0..w {
                if at(x, y) == cls {
                    any = true;
                    lo = lo.min(x);
                    hi = hi.max(x);
                }
            }
        }
        if any {
            Some((lo, hi))
        } else {
            None
        }
    };
    let (Some(r), Some(g), Some(b)) = (range(2), range(3), range(4)) else {
        return Err(format!("a {}x{} target lacks a pure red, green or blue region", w, h));
    };
    if !(r.1 < g.0 && g.1 < b.0) {
        return Err(format!("colour bars of a {}x{} target are not ordered red < green < blue from the left: x-ranges {:?} {:?} {:?}", w, h, r, g, b));
    }
    Ok(())
}

/// apply symmetry g (0..8: rot = g & 3 clockwise quarter turns, then mirror left-right if g >= 4) to a picture
fn transform(pic: &[u8], w: u32, h: u32, g: u8) -> (Vec<u8>, u32, u32) {
    let rot = g & 3;
    let (w2, h2) = if rot & 1 == 1 { (h, w) } else { (w, h) };
    let mut out = vec![0u8; pic.len()];
    for y in 0..h {
        for x in 0..w {
            let (mut x2, y2) = match rot {
                0 => (x, y),
                1 => (h - 1 - y, x),
                2 => (w - 1 - x, h - 1 - y),
                _ => (y, w - 1 - x),
            };
            if g >= 4 {
                x2 = w2 - 1 - x2;
            }
            out[(y2 * w2 + x2) as usize] = pic[(y * w + x) as usize];
        }
    }
    (out, w2, h2)
}

pub fn check(c: &SizeCase, info: &mut CaseInfo) -> Result<(), String> {
    crate::dut::install_panic_hook();
    let pic = render_ct_at(c.w, c.h, c.colour, c.origin)?;
    if c.origin != (0, 0) {
        info.label("non-origin-target");
    }
    if c.w >= 32 && c.h >= 32 {
        judge(&pic, c.w, c.h).map_err(|e| format!("{} (target origin {:?})", e, c.origin))?;
        // the picture differs from each of its seven rotated / mirrored versions: what a user whose
        // orientation setting is off by g would see is g applied to the image drawn for the
        // correspondingly transformed size
        for g in 1..8u8 {
            let rot = g & 3;
            let (sw, sh) = if rot & 1 == 1 { (c.h, c.w) } else { (c.w, c.h) };
            let src = render_ct(sw, sh, c.colour)?;
            let (seen, w2, h2) = transform(&src, sw, sh, g);
            debug_assert!((w2, h2) == (c.w, c.h));
            if seen == pic {
                return Err(format!(
                    "on a {}x{} target the test image looks the same when the orientation is off by symmetry {} (rot {} quarter turns{})",
                    c.w,
                    c.h,
                    g,
                    rot,
                    if g >= 4 { ", mirrored" } else { "" }
                ));
            }
        }
        info.nontrivial = true;
    } else {
        info.label("smaller-than-32");
    }
    Ok(())
}

// ---- through a real Display

#[derive(Clone, Debug, PartialEq, Eq, Hash, Serialize, Deserialize)]
pub struct DisplayCase {
    pub cfg: Config,
    /// a full-screen clear issued before the test image: 0 none, 1 green, 2 red, 3 blue, 4 white, 5 black
    #[serde(default)]
    pub pre_clear: u8,
    /// change the orientation at run time (after the optional clear) before drawing the image
    #[serde(default)]
    pub reorient: Option<Orient>,
}

pub fn check_display(c: &DisplayCase, info: &mut CaseInfo) -> Result<(), String> {
    let cfg = &c.cfg;
    let mut s = Session::start(cfg)?;
    if c.pre_clear != 0 {
        // earlier drawing must not leak into the picture (e.g. patterns staged in a transport buffer)
        let b = s.bits;
        let col = match (c.pre_clear, b) {
            (1, 16) => 0x07e0,
            (1, _) => 0x00fc0,
            (2, 16) => 0xf800,
            (2, _) => 0x3f000,
            (3, 16) => 0x001f,
            (3, _) => 0x0003f,
            (4, 16) => 0xffff,
            (4, _) => 0x3ffff,
            _ => 0,
        };
        s.dut.clear(col).map_err(|e| format!("clear failed: {:?}", e))?;
        info.label("pre-cleared");
    }
    let mut orient = cfg.orient;
    if let Some(o) = c.reorient {
        s.dut.set_orientation(o).map_err(|e| format!("set_orientation failed: {:?}", e))?;
        orient = o;
        info.label("re-oriented");
    }
    match s.dut.draw_test_image() {
        Ok(()) => {}
        Err(e) => return Err(format!("drawing the test image on a display failed: {:?}", e)),
    }
    let wb = s.w.borrow();
    if let Some(e) = wb.panel.errors.first() {
        return Err(format!("malformed traffic: {}", e));
    }
    let cfg = &{
        let mut c2 = cfg.clone();
        c2.orient = orient;
        c2
    };
    let (lw, lh) = cfg.logical_size(cfg.orient);
    let bits = s.bits;
    let (white, red, green, blue) = if bits == 16 { (0xffff, 0xf800, 0x07e0, 0x001f) } else { (0x3ffff, 0x3f000, 0x00fc0, 0x0003f) };
    // read the logical picture back through the inverse of the geometric transform
    let mut pic = vec![0u8; (lw * lh) as usize];
    for y in 0..lh {
        for x in 0..lw {
            let (px, py) = to_phys(cfg, cfg.orient, x, y);
            let v = wb.panel.mem.get(px, py);
            pic[(y * lw + x) as usize] = if v == UNTOUCHED {
                0
            } else if v == white {
                1
            } else if v == red {
                2
            } else if v == green {
                3
            } else if v == blue {
                4
            } else {
                5
            };
        }
    }
    // nothing outside the panel window
    let written = wb.panel.mem.written_count();
    let painted = pic.iter().filter(|c| **c != 0).count() as u64;
    if written != painted {
        return Err(format!("the test image wrote {} cells, {} of them inside the panel window", written, painted));
    }
    if lw >= 32 && lh >= 32 {
        judge(&pic, lw, lh)?;
        // and it equals what the image paints on a plain canvas of that size
        let plain = if bits == 16 { render::<Rgb565>(lw, lh)? } else { render::<Rgb666>(lw, lh)? };
        if plain != pic {
            return Err("the picture on the display differs from the picture on a plain canvas of the same size".into());
        }
        info.nontrivial = true;
    }
    info.label(cfg.transport.label());
    Ok(())
}

fn display_strategy() -> BoxedStrategy<DisplayCase> {
    let mut menu = gen::ConfigMenu::all_transports();
    menu.models = crate::models::builtin_models();
    (gen::config(menu), 32u16..=120, 32u16..=120, any::<(u16, u16)>(), 0u8..12, proptest::option::weighted(0.3, gen::orient()))
        .prop_map(|(mut cfg, w, h, (a, b), pre, reorient)| {
            // pin-level transports: keep the picture small (cost)
            let (w, h) = if cfg.transport.pin_level() { (32 + w % 10, 32 + h % 10) } else { (w, h) };
            // windows of at least 32x32 (where the framebuffer allows) so that the predicates apply
            let (fw, fh) = cfg.model.fb();
            cfg.w = w.min(fw);
            cfg.h = h.min(fh);
            // offsets: often exactly zero or the maximum (smaller glass in a corner of the framebuffer)
            cfg.ox = match a % 4 {
                0 => 0,
                1 => fw - cfg.w,
                _ => (a / 4) % (fw - cfg.w + 1),
            };
            cfg.oy = match b % 4 {
                0 => 0,
                1 => fh - cfg.h,
                _ => (b / 4) % (fh - cfg.h + 1),
            };
            DisplayCase { cfg, pre_clear: if pre < 6 { pre } else { 0 }, reorient }
        })
        .boxed()
}

fn size_strategy() -> BoxedStrategy<SizeCase> {
    let dim = prop_oneof![4 => 32u32..=400, 2 => 0u32..40, 1 => 400u32..=2048];
    (dim.clone(), dim, prop_oneof![Just(ColourType::Rgb565), Just(ColourType::Rgb666), Just(ColourType::Rgb888)])
        .prop_flat_map(|(w, h, colour)| {
            let origin = prop_oneof![
                2 => Just((0i32, 0i32)),
                1 => (-200i32..200, -200i32..200),
                1 => (any::<i16>(), any::<i16>()).prop_map(|(a, b)| (a as i32 * 8, b as i32 * 8)),
                // at the ends of the coordinate space (the exclusive far corner must still fit into i32)
                1 => (0u8..4, 0i32..40, 0i32..40).prop_map(move |(corner, dx, dy)| {
                    let fx = i32::MAX - w.max(1) as i32 - dx;
                    let fy = i32::MAX - h.max(1) as i32 - dy;
                    match corner {
                        0 => (i32::MIN + dx, i32::MIN + dy),
                        1 => (fx, i32::MIN + dy),
                        2 => (i32::MIN + dx, fy),
                        _ => (fx, fy),
                    }
                }),
            ];
            (Just(w), Just(h), Just(colour), origin)
        })
        .prop_map(|(w, h, colour, origin)| SizeCase { w, h, colour, origin })
        .boxed()
}

fn sig(_c: &SizeCase, reason: &str) -> String {
    let kind = if reason.contains("panicked") {
        "panic"
    } else if reason.contains("never painted") {
        "unpainted"
    } else if reason.contains("border") {
        "border"
    } else if reason.contains("colour bars") || reason.contains("lacks") {
        "bars"
    } else if reason.contains("looks the same") {
        "symmetric"
    } else {
        "other"
    };
    format!("c19:{}", kind)
}

// ---- dense sweep over target sizes (the layout depends on the width and height through integer
// divisions and fits: a relation between the two that breaks it may exist for a handful of sizes only)

#[derive(Clone, Debug, PartialEq, Eq, Hash, Serialize, Deserialize)]
pub struct SweepCase {
    pub w: u32,
    pub h_from: u32,
    pub h_to: u32,
    pub colour: ColourType,
}

static SWEPT: std::sync::atomic::AtomicU64 = std::sync::atomic::AtomicU64::new(0);

pub fn check_sweep(c: &SweepCase, info: &mut CaseInfo) -> Result<(), String> {
    crate::dut::install_panic_hook();
    info.nontrivial = true;
    for h in c.h_from..=c.h_to {
        let pic = render_ct(c.w, h, c.colour)?;
        SWEPT.fetch_add(1, std::sync::atomic::Ordering::Relaxed);
        if c.w >= 32 && h >= 32 {
            judge(&pic, c.w, h).map_err(|e| format!("{}x{} ({:?}): {}", c.w, h, c.colour, e))?;
        }
    }
    Ok(())
}

// ---- one TestImage value drawn on several targets in turn (Drawable::draw takes &self)

#[derive(Clone, Debug, PartialEq, Eq, Hash, Serialize, Deserialize)]
pub struct ReuseCase {
    pub colour: ColourType,
    /// (width, height, origin) of the targets, in drawing order
    pub targets: Vec<(u32, u32, (i32, i32))>,
}

fn render_reuse<C: RgbColor>(targets: &[(u32, u32, (i32, i32))]) -> Result<Vec<Vec<u8>>, String> {
    let img = TestImage::<C>::new();
    let mut out = Vec::new();
    for (w, h, o) in targets {
        let mut cv = Canvas::<C>::at(o.0, o.1, *w, *h);
        let r = std::panic::catch_unwind(std::panic::AssertUnwindSafe(|| img.draw(&mut cv)));
        match r {
            Err(_) => return Err(format!("TestImage panicked on a {}x{} target", w, h)),
            Ok(Err(_)) => unreachable!(),
            Ok(Ok(())) => out.push(cv.cells.iter().map(|c| classify(*c)).collect()),
        }
    }
    Ok(out)
}

pub fn check_reuse(c: &ReuseCase, info: &mut CaseInfo) -> Result<(), String> {
    crate::dut::install_panic_hook();
    let pics = match c.colour {
        ColourType::Rgb565 => render_reuse::<Rgb565>(&c.targets),
        ColourType::Rgb666 => render_reuse::<Rgb666>(&c.targets),
        ColourType::Rgb888 => render_reuse::<Rgb888>(&c.targets),
    }?;
    for (i, ((w, h, o), pic)) in c.targets.iter().zip(&pics).enumerate() {
        // "on every target": the predicates hold whatever was drawn before on another target (the
        // picture itself is not compared with a fresh one: the property does not fix it)
        if *w >= 32 && *h >= 32 {
            judge(pic, *w, *h).map_err(|e| format!("target {} ({}x{} at {:?}): {}", i, w, h, o, e))?;
        }
    }
    info.nontrivial = c.targets.len() >= 2 && c.targets.windows(2).any(|p| p[0] != p[1]);
    Ok(())
}

fn reuse_strategy() -> BoxedStrategy<ReuseCase> {
    let dim = prop_oneof![5 => 32u32..=330, 1 => 0u32..40];
    let origin = prop_oneof![3 => Just((0i32, 0i32)), 1 => (-50i32..50, -50i32..50)];
    let target = (dim.clone(), dim, origin, any::<bool>()).prop_map(|(w, h, o, _)| (w, h, o));
    (prop_oneof![Just(ColourType::Rgb565), Just(ColourType::Rgb666), Just(ColourType::Rgb888)], proptest::collection::vec(target, 2..=3), 0u8..4)
        .prop_map(|(colour, mut targets, twist)| {
            // frequent shapes of reuse: the same panel in portrait and landscape, a smaller target after a larger one
            let (w, h, o) = targets[0];
            match twist {
                0 => targets[1] = (h, w, o),
                1 => targets[1] = (w.saturating_sub(7).max(1), h.saturating_sub(9).max(1), o),
                _ => {}
            }
            ReuseCase { colour, targets }
        })
        .boxed()
}

pub fn run(ctx: &Ctx) -> Report {
    let mut rep = Report::new("C19", "exploration");
    rep.assumptions = vec![
        "colour-bar predicate is set based (x-ranges of pure red / green / blue strictly ordered): at 32 px the letter glyphs overwrite the whole width of the green bar in the glyph rows, which the property allows".into(),
        "'differs from its seven rotated or mirrored versions' compares with the symmetry applied to the image drawn for the correspondingly transformed size (what a user with that wrong orientation would see)".into(),
    ];
    let max = if ctx.tier == Tier::Thorough { 96 } else { 56 };
    let mut sec = Section::new(
        &format!("all-sizes[{}]", ctx.variant),
        &format!(
            "every target size 0..={m} x 0..={m} for Rgb565, Rgb666 and Rgb888 on a clipping framebuffer of our own: never panics; for >= 32x32: every pixel painted, one-pixel pure white frame exactly on the outermost ring, red left of green left of blue, differs from all 7 rotated/mirrored versions; non-trivial = size >= 32x32",
            m = max
        ),
    );
    sec.exhaustive = true;
    let mut cases = Vec::new();
    for colour in [ColourType::Rgb565, ColourType::Rgb666, ColourType::Rgb888] {
        for w in 0..=max {
            for h in 0..=max {
                cases.push(SizeCase { w, h, colour, origin: (0, 0) });
            }
        }
    }
    // targets whose bounding box does not start at the origin
    for colour in [ColourType::Rgb565, ColourType::Rgb666, ColourType::Rgb888] {
        for (i, origin) in [(5, 7), (-3, 0), (0, -9), (-40, -33), (1000, -2000), (-1, 1)].into_iter().enumerate() {
            for (w, h) in [(32, 32), (33, 47), (64, 40), (40 + i as u32, 90), (0, 5), (7, 7), (128, 128)] {
                cases.push(SizeCase { w, h, colour, origin });
            }
        }
    }
    // targets at the ends of the coordinate space: every bounding box whose exclusive far corner fits
    // into i32 (embedded-graphics iterates rectangles through half-open i32 ranges, so it cannot itself
    // address a column or row at i32::MAX)
    for colour in [ColourType::Rgb565, ColourType::Rgb888] {
        for (w, h) in [(0u32, 0u32), (1, 1), (3, 3), (5, 5), (10, 10), (64, 10), (10, 64), (18, 19), (24, 25), (26, 31), (31, 26), (32, 32), (40, 33), (64, 64)] {
            let far = |n: u32, back: i32| i32::MAX - n.max(1) as i32 - back;
            for ox in [i32::MIN, i32::MIN + 3, far(w, 0), far(w, 7), 0] {
                for oy in [i32::MIN, i32::MIN + 4, far(h, 0), far(h, 9), 0] {
                    if (ox, oy) != (0, 0) {
                        cases.push(SizeCase { w, h, colour, origin: (ox, oy) });
                    }
                }
            }
        }
    }
    for (w, h) in [(65535, 40), (40, 65535), (65535, 33), (1, 65535), (65535, 0), (3000, 2000)] {
        cases.push(SizeCase { w, h, colour: ColourType::Rgb565, origin: (0, 0) });
    }
    run_enumerated(&mut sec, cases, ctx.workers, check, sig);
    rep.sections.push(sec);

    // (the plain canvas does not depend on the batch feature: one build variant sweeps)
    if cfg!(feature = "batch") {
        let (long, short) = if ctx.tier == Tier::Thorough { (700u32, 500u32) } else { (500u32, 340u32) };
        let colours: &[ColourType] = if ctx.tier == Tier::Thorough { &[ColourType::Rgb565, ColourType::Rgb666, ColourType::Rgb888] } else { &[ColourType::Rgb565] };
        let mut sec = Section::new(
            &format!("size-sweep[{}]", ctx.variant),
            &format!(
                "every target size in [32..={l}] x [32..={s}] and [32..={s}] x [32..={l}] ({} colour type(s)) on the clipping framebuffer: never panics, every pixel painted, white frame exactly on the outermost ring, pure red left of pure green left of pure blue (the symmetry comparison is left to the other sections); one case = one width with all its heights; evaluations counts sizes",
                colours.len(),
                l = long,
                s = short
            ),
        );
        sec.exhaustive = true;
        let mut cases = Vec::new();
        for &colour in colours {
            for w in 32..=long {
                let h_to = if w <= short { long } else { short };
                // split the heights so that the cases are of similar cost
                let mut h = 32;
                while h <= h_to {
                    let e = (h + 59).min(h_to);
                    cases.push(SweepCase { w, h_from: h, h_to: e, colour });
                    h = e + 1;
                }
            }
        }
        SWEPT.store(0, std::sync::atomic::Ordering::Relaxed);
        let n_cases = cases.len() as u64;
        run_enumerated(&mut sec, cases, ctx.workers, check_sweep, |_, r| format!("c19:sweep:{}", r.chars().skip_while(|c| *c != ':').take(30).collect::<String>()));
        sec.extra.insert("cases".into(), serde_json::json!(n_cases));
        sec.stats.evaluations = SWEPT.load(std::sync::atomic::Ordering::Relaxed);
        rep.sections.push(sec);
    }

    let mut sec = Section::new(
        &format!("one-image-several-targets[{}]", ctx.variant),
        "one TestImage value drawn on 2..3 targets in turn (different sizes / origins; portrait after landscape; smaller after larger): every picture on a target of at least 32x32 satisfies the predicates, no draw panics; non-trivial = at least two different targets",
    );
    run_generated(&mut sec, ctx.seed ^ 0x19a, ctx.cases(3_000, 60_000), ctx.workers, reuse_strategy, check_reuse, |_, r| format!("c19:reuse:{}", r.chars().skip_while(|c| *c != ':').take(30).collect::<String>()));
    rep.sections.push(sec);

    let mut sec = Section::new(&format!("generated-sizes[{}]", ctx.variant), "generated sizes up to 2048x2048, three colour types, same predicates");
    run_generated(&mut sec, ctx.seed, ctx.cases(1_500, 40_000), ctx.workers, size_strategy, check, sig);
    rep.sections.push(sec);

    let mut sec = Section::new(
        &format!("real-displays[{}]", ctx.variant),
        "TestImage drawn through a real Display of every built-in model, all 8 orientations, generated windows/offsets/options, recording and pin-level transports (SPI with generated buffer lengths, 8/16-bit parallel), optionally after a full-screen clear to green/red/blue/white/black; frame memory read back through the inverse geometric transform: same predicates, nothing written outside the panel window, identical to the plain-canvas picture",
    );
    run_generated(&mut sec, ctx.seed ^ 19, ctx.cases(8_000, 200_000), ctx.workers, display_strategy, check_display, |_, r| format!("c19:display:{}", r.chars().take(24).collect::<String>()));
    rep.sections.push(sec);
    rep
}

pub fn replay(section: &str, case: &Value) -> Result<(), String> {
    if section.starts_with("real-displays") {
        check_display(&de::<DisplayCase>(case)?, &mut CaseInfo::default())
    } else if section.starts_with("one-image-several-targets") {
        check_reuse(&de::<ReuseCase>(case)?, &mut CaseInfo::default())
    } else if section.starts_with("size-sweep") {
        check_sweep(&de::<SweepCase>(case)?, &mut CaseInfo::default())
    } else {
        check(&de::<SizeCase>(case)?, &mut CaseInfo::default())
    }
}

//! C01 — drawn pixels land at the oriented, offset panel position (every entry point).

use super::{de, Ctx, Tier};
use crate::exec::{ProgCase, Session};
use crate::gen;
use crate::models::ModelId;
use crate::runner::*;
use crate::types::*;
use proptest::prelude::*;
use serde_json::Value;

pub fn check(case: &ProgCase, info: &mut CaseInfo) -> Result<(), String> {
    let cfg = &case.cfg;
    let mut s = Session::start(cfg)?;
    let (lw, lh) = cfg.logical_size(cfg.orient);
    if s.dut.size() != (lw, lh) {
        return Err(format!("size() = {:?}, expected the rotated size {:?}", s.dut.size(), (lw, lh)));
    }
    let bb = s.dut.bounding_box();
    if bb != (Rect { x: 0, y: 0, w: lw, h: lh }) {
        return Err(format!("bounding_box() = {:?}, expected origin + rotated size {:?}", bb, (lw, lh)));
    }
    let mut drawn = 0;
    for op in &case.ops {
        let obs = s.call(op)?;
        drawn += obs.in_bounds_pixels;
        if let Some(e) = obs.decode_errors.first() {
            return Err(format!("bus decode error: {}", e));
        }
    }
    s.compare()?;
    info.nontrivial = drawn > 0 && cfg.non_default() && cfg.asymmetric();
    info.label(cfg.transport.label());
    if cfg.orient.vertical() {
        info.label(if cfg.orient.mirrored { "vertical+mirrored" } else { "vertical" });
    } else if cfg.orient.mirrored {
        info.label("mirrored");
    }
    if cfg.ox != 0 || cfg.oy != 0 {
        info.label("offset");
    }
    if !cfg.model.builtin() {
        info.label("external-model");
    }
    for op in &case.ops {
        info.label(crate::exec::op_name(op));
    }
    Ok(())
}

pub fn strategy(menu: gen::ConfigMenu, max_ops: usize) -> BoxedStrategy<ProgCase> {
    gen::config(menu)
        .prop_flat_map(move |cfg| {
            let (lw, lh) = cfg.logical_size(cfg.orient);
            (Just(cfg), gen::program_in(lw, lh, max_ops))
        })
        .prop_map(|(cfg, ops)| ProgCase { cfg, ops })
        .boxed()
}

fn sig(_c: &ProgCase, reason: &str) -> String {
    let r: String = reason.chars().take(40).collect();
    format!("c01:{}", r)
}

/// Exhaustive small scope: framebuffer 7x5, every accepted window up to 4x3, 8 orientations,
/// every single pixel through every entry point.
#[derive(Clone, Debug, PartialEq, Eq, Hash, serde::Serialize, serde::Deserialize)]
pub struct SmallCase {
    pub cfg: Config,
    pub x: u16,
    pub y: u16,
    /// 0 set_pixel, 1 set_pixels, 2 draw_iter, 3 fill_contiguous, 4 fill_solid
    pub entry: u8,
}

pub fn small_cases(transport: Transport) -> Vec<SmallCase> {
    let model = ModelId::E7x5;
    let (fw, fh) = model.fb();
    let mut out = Vec::new();
    for w in 1..=4u16 {
        for h in 1..=3u16 {
            for ox in 0..=(fw - w) {
                for oy in 0..=(fh - h) {
                    for o in Orient::ALL {
                        let mut cfg = Config::full(model, transport);
                        cfg.w = w;
                        cfg.h = h;
                        cfg.ox = ox;
                        cfg.oy = oy;
                        cfg.orient = o;
                        let (lw, lh) = cfg.logical_size(o);
                        for x in 0..lw as u16 {
                            for y in 0..lh as u16 {
                                for entry in 0..5u8 {
                                    out.push(SmallCase { cfg: cfg.clone(), x, y, entry });
                                }
                            }
                        }
                    }
                }
            }
        }
    }
    out
}

pub fn check_small(c: &SmallCase, info: &mut CaseInfo) -> Result<(), String> {
    let seed = 77 + c.entry as u32;
    let r1 = Rect { x: c.x as i32, y: c.y as i32, w: 1, h: 1 };
    let op = match c.entry {
        0 => DrawOp::SetPixel { x: c.x, y: c.y, seed },
        1 => DrawOp::SetPixels { sx: c.x, sy: c.y, ex: c.x, ey: c.y, n: 1, seed },
        2 => DrawOp::DrawIter { pts: vec![(c.x as i32, c.y as i32)], seed },
        3 => DrawOp::FillContiguous { rect: r1, len: StreamLen::Finite(1), seed },
        _ => DrawOp::FillSolid { rect: r1, seed },
    };
    let pc = ProgCase { cfg: c.cfg.clone(), ops: vec![op] };
    let mut i2 = CaseInfo::default();
    check(&pc, &mut i2)?;
    info.nontrivial = c.cfg.non_default();
    Ok(())
}

pub fn run(ctx: &Ctx) -> Report {
    let mut rep = Report::new("C01", "exploration");
    rep.assumptions = vec![
        "Panel model implements MIPI-DCS addressing (MV exchanges, then MX/MY mirror the physical axes)".into(),
        "external models are represented by a menu of framebuffer sizes 1x1 .. 65535x65535".into(),
        "windows on the 65535x65535 model are at most 64x64 (placed at the far edges)".into(),
    ];

    // exhaustive small scope
    let mut sec = Section::new(
        &format!("small-scope[{}]", ctx.variant),
        "framebuffer 7x5: every accepted window up to 4x3 x every offset x 8 orientations x every pixel x 5 entry points; non-trivial = orientation or offset non-default; distinct = (config, pixel, entry)",
    );
    let mut cases = small_cases(Transport::Rec8);
    if ctx.tier == Tier::Thorough {
        cases.extend(small_cases(Transport::Spi { buf: 5 }));
        cases.extend(small_cases(Transport::Par8));
        cases.extend(small_cases(Transport::Par16));
    }
    sec.exhaustive = true;
    run_enumerated(&mut sec, cases, ctx.workers, check_small, |_, r| format!("c01-small:{}", r.chars().take(40).collect::<String>()));
    rep.sections.push(sec);

    // generated programs
    let mut sec = Section::new(
        &format!("programs[{}]", ctx.variant),
        "config (model menu x window x orientation x options x transport) x 1..8 in-bounds drawing calls; oracle = reference image through the geometric transform, all cells compared; non-trivial = >=1 pixel drawn, orientation/offset non-default, margins asymmetric; distinct by hash of the whole case",
    );
    let n = ctx.cases(300_000, 6_000_000);
    run_generated(&mut sec, ctx.seed, n, ctx.workers, || strategy(gen::ConfigMenu::all_transports(), 8), check, sig);
    rep.sections.push(sec);

    if ctx.tier == Tier::Thorough {
        let mut sec = Section::new(
            &format!("programs-pin-level[{}]", ctx.variant),
            "as programs, all through the real SpiInterface / ParallelInterface over pin-level doubles",
        );
        run_generated(&mut sec, ctx.seed ^ 0x51, ctx.cases(0, 200_000), ctx.workers, || strategy(gen::ConfigMenu::pin_level(), 6), check, sig);
        rep.sections.push(sec);
        let mut sec = Section::new(&format!("long-programs[{}]", ctx.variant), "as programs, up to 40 drawing calls per display (state accumulated over many calls)");
        run_generated(&mut sec, ctx.seed ^ 0x52, ctx.cases(0, 300_000), ctx.workers, || strategy(gen::ConfigMenu::all_transports(), 40), check, sig);
        rep.sections.push(sec);
    }
    rep
}

pub fn replay(section: &str, case: &Value) -> Result<(), String> {
    let mut info = CaseInfo::default();
    if section.starts_with("small-scope") {
        check_small(&de::<SmallCase>(case)?, &mut info)
    } else {
        check(&de::<ProgCase>(case)?, &mut info)
    }
}

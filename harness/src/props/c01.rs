//! C01 — drawn pixels land at the oriented, offset panel position (every entry point).

use super::{de, Ctx, Tier};
use crate::exec::{ProgCase, Session};
use crate::gen;
use crate::models::ModelId;
use crate::runner::*;
use crate::types::*;
use proptest::prelude::*;
use serde_json::Value;

pub fn check(case: &ProgCase, info: &mut CaseInfo) -> Result<(), String> {
    let cfg = &case.cfg;
    let mut s = Session::start(cfg)?;
    let (lw, lh) = cfg.logical_size(cfg.orient);
    if s.dut.size() != (lw, lh) {
        return Err(format!("size() = {:?}, expected the rotated size {:?}", s.dut.size(), (lw, lh)));
    }
    let bb = s.dut.bounding_box();
    if bb != (Rect { x: 0, y: 0, w: lw, h: lh }) {
        return Err(format!("bounding_box() = {:?}, expected origin + rotated size {:?}", bb, (lw, lh)));
    }
    let mut drawn = 0;
    for op in &case.ops {
        let obs = s.call(op)?;
        drawn += obs.in_bounds_pixels;
        if let Some(e) = obs.decode_errors.first() {
            return Err(format!("bus decode error: {}", e));
        }
    }
    s.compare()?;
    info.nontrivial = drawn > 0 && cfg.non_default() && cfg.asymmetric();
    info.label(cfg.transport.label());
    if cfg.orient.vertical() {
        info.label(if cfg.orient.mirrored { "vertical+mirrored" } else { "vertical" });
    } else if cfg.orient.mirrored {
        info.label("mirrored");
    }
    if cfg.ox != 0 || cfg.oy != 0 {
        info.label("offset");
    }
    if !cfg.model.builtin() {
        info.label("external-model");
    }
    for op in &case.ops {
        info.label(crate::exec::op_name(op));
    }
    Ok(())
}

pub fn strategy(menu: gen::ConfigMenu, max_ops: usize) -> BoxedStrategy<ProgCase> {
    gen::config(menu)
        .prop_flat_map(move |cfg| {
            let (lw, lh) = cfg.logical_size(cfg.orient);
            (Just(cfg), gen::program_in(lw, lh, max_ops))
        })
        .prop_map(|(cfg, ops)| ProgCase { cfg, ops })
        .boxed()
}

fn sig(_c: &ProgCase, reason: &str) -> String {
    let r: String = reason.chars().take(40).collect();
    format!("c01:{}", r)
}

/// Exhaustive small scope: framebuffer 7x5, every accepted window up to 4x3, 8 orientations,
/// every single pixel through every entry point.
#[derive(Clone, Debug, PartialEq, Eq, Hash, serde::Serialize, serde::Deserialize)]
pub struct SmallCase {
    pub cfg: Config,
    pub x: u16,
    pub y: u16,
    /// 0 set_pixel, 1 set_pixels, 2 draw_iter, 3 fill_contiguous, 4 fill_solid
    pub entry: u8,
}

pub fn small_cases(transport: Transport) -> Vec<SmallCase> {
    let model = ModelId::E7x5;
    let (fw, fh) = model.fb();
    let mut out = Vec::new();
    for w in 1..=4u16 {
        for h in 1..=3u16 {
            for ox in 0..=(fw - w) {
                for oy in 0..=(fh - h) {
                    for o in Orient::ALL {
                        let mut cfg = Config::full(model, transport);
                        cfg.w = w;
                        cfg.h = h;
                        cfg.ox = ox;
                        cfg.oy = oy;
                        cfg.orient = o;
                        let (lw, lh) = cfg.logical_size(o);
                        for x in 0..lw as u16 {
                            for y in 0..lh as u16 {
                                for entry in 0..5u8 {
                                    out.push(SmallCase { cfg: cfg.clone(), x, y, entry });
                                }
                            }
                        }
                    }
                }
            }
        }
    }
    out
}

pub fn check_small(c: &SmallCase, info: &mut CaseInfo) -> Result<(), String> {
    let seed = 77 + c.entry as u32;
    let r1 = Rect { x: c.x as i32, y: c.y as i32, w: 1, h: 1 };
    let op = match c.entry {
        0 => DrawOp::SetPixel { x: c.x, y: c.y, seed },
        1 => DrawOp::SetPixels { sx: c.x, sy: c.y, ex: c.x, ey: c.y, n: 1, seed },
        2 => DrawOp::DrawIter { pts: vec![(c.x as i32, c.y as i32)], seed },
        3 => DrawOp::FillContiguous { rect: r1, len: StreamLen::Finite(1), seed },
        _ => DrawOp::FillSolid { rect: r1, seed },
    };
    let pc = ProgCase { cfg: c.cfg.clone(), ops: vec![op] };
    let mut i2 = CaseInfo::default();
    check(&pc, &mut i2)?;
    info.nontrivial = c.cfg.non_default();
    Ok(())
}

/// Fills of more than 2^26 pixels (65535x65535 external models): the frame memory of such a window is
/// not simulated cell by cell; the Panel keeps the window, the pixel count and the colours of the
/// burst. Placement oracle: the burst's window, mapped through the controller's addressing, is the
/// geometric image of the visible rectangle; it is filled exactly once (no wrap) in the drawn colour.
pub fn check_giant(c: &ProgCase, info: &mut CaseInfo) -> Result<(), String> {
    use crate::exec::op_name;
    use crate::oracle::to_phys;
    info.nontrivial = true;
    let mut s = Session::start(&c.cfg)?;
    for op in &c.ops {
        let pulls = std::cell::Cell::new(0u64);
        s.dut.run(op, &pulls).map_err(|e| format!("{} failed: {:?}", op_name(op), e))?;
        let mut wb = s.w.borrow_mut();
        let bursts = wb.panel.take_bursts();
        wb.panel.take_trace();
        if let Some(e) = wb.panel.take_errors().first() {
            return Err(format!("controller saw malformed traffic: {}", e));
        }
        if let Some(e) = wb.decode_errors.first() {
            return Err(format!("bus decode error: {}", e));
        }
        let Some((x0, y0, x1, y1)) = super::c20::giant_target(&c.cfg, s.orient, op) else {
            return Err("HARNESS: giant-fill case with an empty or unsupported call".into());
        };
        let area = (x1 - x0 + 1) as u64 * (y1 - y0 + 1) as u64;
        let (a, b) = (to_phys(&c.cfg, s.orient, x0, y0), to_phys(&c.cfg, s.orient, x1, y1));
        let want = (a.0.min(b.0), a.1.min(b.1), a.0.max(b.0), a.1.max(b.1));
        let colour = colour_of(seed_of(op), 0, s.bits);
        let filled: Vec<_> = bursts.iter().filter(|b| b.pixels > 0).collect();
        let mut covered = 0u64;
        for b in &filled {
            let (p, q) = match (wb.panel.cell(b.sc as u32, b.sp as u32), wb.panel.cell(b.ec as u32, b.ep as u32)) {
                (Some(p), Some(q)) => (p, q),
                _ => return Err(format!("{}: window cols {}..={} pages {}..={} lies outside the controller framebuffer", op_name(op), b.sc, b.ec, b.sp, b.ep)),
            };
            let got = (p.0.min(q.0), p.1.min(q.1), p.0.max(q.0), p.1.max(q.1));
            // every burst must stay inside the target and be filled exactly once; one burst is what the
            // driver does today, several disjoint ones would need a cell map and are not accepted blindly
            if filled.len() == 1 && got != want {
                return Err(format!(
                    "{} of logical ({},{})..=({},{}) under {:?}: the burst fills physical cells {:?}, the geometric image is {:?}",
                    op_name(op), x0, y0, x1, y1, s.orient, got, want
                ));
            }
            if b.pixels != b.area() {
                return Err(format!("{}: burst of {} pixels into a window of {} cells (cells left unpainted or the write pointer wrapped)", op_name(op), b.pixels, b.area()));
            }
            if b.bulk_mixed || b.bulk_colour.map_or(false, |cc| cc != colour) {
                return Err(format!("{}: the fill arrives as colour {:x?} (mixed: {}), drawn {:#x}", op_name(op), b.bulk_colour, b.bulk_mixed, colour));
            }
            covered += b.pixels;
        }
        if filled.len() != 1 {
            return Err(format!("{}: {} pixel bursts (expected one burst of {} pixels; {} pixels arrived)", op_name(op), filled.len(), area, covered));
        }
        if wb.panel.oob_addr != 0 {
            return Err(format!("{} pixel writes addressed memory outside the framebuffer", wb.panel.oob_addr));
        }
    }
    Ok(())
}

fn seed_of(op: &DrawOp) -> u32 {
    match op {
        DrawOp::SetPixel { seed, .. }
        | DrawOp::SetPixels { seed, .. }
        | DrawOp::DrawIter { seed, .. }
        | DrawOp::FillContiguous { seed, .. }
        | DrawOp::FillSolid { seed, .. }
        | DrawOp::Clear { seed } => *seed,
    }
}

pub fn run(ctx: &Ctx) -> Report {
    let mut rep = Report::new("C01", "exploration");
    rep.assumptions = vec![
        "Panel model implements MIPI-DCS addressing (MV exchanges, then MX/MY mirror the physical axes)".into(),
        "external models are represented by a menu of framebuffer sizes 1x1 .. 65535x65535".into(),
        "windows on the 65535x65535 model are at most 64x64 (placed at the far edges)".into(),
    ];

    // exhaustive small scope
    let mut sec = Section::new(
        &format!("small-scope[{}]", ctx.variant),
        "framebuffer 7x5: every accepted window up to 4x3 x every offset x 8 orientations x every pixel x 5 entry points; non-trivial = orientation or offset non-default; distinct = (config, pixel, entry)",
    );
    let mut cases = small_cases(Transport::Rec8);
    if ctx.tier == Tier::Thorough {
        cases.extend(small_cases(Transport::Spi { buf: 5 }));
        cases.extend(small_cases(Transport::Par8));
        cases.extend(small_cases(Transport::Par16));
    }
    sec.exhaustive = true;
    run_enumerated(&mut sec, cases, ctx.workers, check_small, |_, r| format!("c01-small:{}", r.chars().take(40).collect::<String>()));
    rep.sections.push(sec);

    // generated programs
    let mut sec = Section::new(
        &format!("programs[{}]", ctx.variant),
        "config (model menu x window x orientation x options x transport) x 1..8 in-bounds drawing calls; oracle = reference image through the geometric transform, all cells compared; non-trivial = >=1 pixel drawn, orientation/offset non-default, margins asymmetric; distinct by hash of the whole case",
    );
    let n = ctx.cases(300_000, 6_000_000);
    run_generated(&mut sec, ctx.seed, n, ctx.workers, || strategy(gen::ConfigMenu::all_transports(), 8), check, sig);
    rep.sections.push(sec);

    super::history_section(&mut rep, ctx, ctx.seed ^ 0x61, ctx.cases(100_000, 2_000_000), || strategy(gen::ConfigMenu::all_transports(), 6), check, sig);

    let mut sec = Section::new(
        &format!("giant-fills[{}]", ctx.variant),
        "clear / fill_solid of more than 2^26 pixels on the 65535x65535 external models (4 windows x 8 orientations x plain and single-word colours, full and inner rectangles): the burst's window maps through the controller's addressing onto the geometric image of the visible rectangle and is filled exactly once in the drawn colour (frame memory of such windows is book-kept, not simulated per cell)",
    );
    sec.exhaustive = true;
    run_enumerated(&mut sec, super::c20::giant_cases(), ctx.workers, check_giant, sig);
    rep.sections.push(sec);

    if ctx.tier == Tier::Thorough {
        let mut sec = Section::new(
            &format!("programs-pin-level[{}]", ctx.variant),
            "as programs, all through the real SpiInterface / ParallelInterface over pin-level doubles",
        );
        run_generated(&mut sec, ctx.seed ^ 0x51, ctx.cases(0, 200_000), ctx.workers, || strategy(gen::ConfigMenu::pin_level(), 6), check, sig);
        rep.sections.push(sec);
        let mut sec = Section::new(&format!("long-programs[{}]", ctx.variant), "as programs, up to 40 drawing calls per display (state accumulated over many calls)");
        run_generated(&mut sec, ctx.seed ^ 0x52, ctx.cases(0, 300_000), ctx.workers, || strategy(gen::ConfigMenu::all_transports(), 40), check, sig);
        rep.sections.push(sec);
    }
    rep
}

pub fn replay(section: &str, case: &Value) -> Result<(), String> {
    let mut info = CaseInfo::default();
    if section.starts_with("small-scope") {
        check_small(&de::<SmallCase>(case)?, &mut info)
    } else if section.starts_with("after-history") {
        super::replay_history(case, check)
    } else if section.starts_with("giant-fills") {
        check_giant(&de::<ProgCase>(case)?, &mut info)
    } else {
        check(&de::<ProgCase>(case)?, &mut info)
    }
}

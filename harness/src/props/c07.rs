//! C07 — parallel transport: values latched at each write strobe are the words sent.

use super::{de, Ctx};
use crate::rig::*;
use crate::runner::*;
use mipidsi::interface::{Generic16BitBus, Generic8BitBus, Interface, OutputBus, ParallelError, ParallelInterface};
use proptest::prelude::*;
use serde::{Deserialize, Serialize};
use serde_json::Value;

#[derive(Clone, Debug, PartialEq, Eq, Hash, Serialize, Deserialize)]
pub enum ParOp {
    Cmd { cmd: u8, args: Vec<u8> },
    /// RAMWR then these pixels (each `n` words)
    Pixels { px: Vec<Vec<u16>> },
    /// RAMWR then one pixel `count` times
    Repeat { pixel: Vec<u16>, count: u32 },
}

#[derive(Clone, Debug, PartialEq, Eq, Hash, Serialize, Deserialize)]
pub struct ParCase {
    pub wide: bool,
    /// words per pixel 1..=3
    pub n: u8,
    pub ops: Vec<ParOp>,
    /// (index of the call, k): the k-th pin operation of that call fails once (if the call gets that far)
    #[serde(default)]
    pub faults: Vec<(u8, u16)>,
    /// a failing pin write still changes the pin level
    #[serde(default)]
    pub late: bool,
}

trait MkWord: Copy + From<u8> + Eq + 'static {
    fn mk(v: u16) -> Self;
}
impl MkWord for u8 {
    fn mk(v: u16) -> u8 {
        v as u8
    }
}
impl MkWord for u16 {
    fn mk(v: u16) -> u16 {
        v
    }
}

fn exec<DI, Wd, const N: usize>(mut di: DI, w: &W, case: &ParCase, info: &mut CaseInfo) -> Result<(), String>
where
    DI: Interface<Word = Wd, Error = ParallelError<Fault, Fault, Fault>>,
    Wd: MkWord,
{
    let mask: u16 = if case.wide { 0xffff } else { 0xff };
    for (idx, op) in case.ops.iter().enumerate() {
        let (ops0, log0) = {
            let wb = w.borrow();
            (wb.ops, wb.latch_log.len())
        };
        let mut expected: Vec<(bool, u16)> = Vec::new();
        w.borrow_mut().op_budget = u64::MAX;
        let armed: Option<u64> = case.faults.iter().find(|f| f.0 as usize == idx).map(|f| ops0 + f.1 as u64);
        {
            let mut wb = w.borrow_mut();
            wb.late_faults = case.late;
            wb.fail_at = armed.into_iter().collect();
        }
        let r = match op {
            ParOp::Cmd { cmd, args } => {
                expected.push((false, *cmd as u16));
                expected.extend(args.iter().map(|b| (true, *b as u16)));
                di.send_command(*cmd, args)
            }
            ParOp::Pixels { px } => {
                expected.push((false, 0x2C));
                for p in px {
                    expected.extend(p[..N].iter().map(|v| (true, *v & mask)));
                }
                di.send_command(0x2C, &[]).and_then(|_| {
                    di.send_pixels(px.iter().map(|p| {
                        let mut a = [Wd::mk(0); N];
                        for i in 0..N {
                            a[i] = Wd::mk(p[i] & mask);
                        }
                        a
                    }))
                })
            }
            ParOp::Repeat { pixel, count } => {
                expected.push((false, 0x2C));
                let mut a = [Wd::mk(0); N];
                for i in 0..N {
                    a[i] = Wd::mk(pixel[i] & mask);
                }
                for _ in 0..*count {
                    expected.extend(pixel[..N].iter().map(|v| (true, *v & mask)));
                }
                // strobes are bounded: 2 per word plus data-pin updates
                let words = *count as u64 * N as u64;
                w.borrow_mut().op_budget = ops0 + 64 + words * 20;
                di.send_command(0x2C, &[]).and_then(|_| di.send_repeated_pixel(a, *count))
            }
        };
        let wb = w.borrow();
        let what = match op {
            ParOp::Cmd { .. } => "send_command".to_string(),
            ParOp::Pixels { px } => format!("send_pixels({} pixels)", px.len()),
            ParOp::Repeat { count, .. } => format!("send_repeated_pixel(count={})", count),
        };
        if wb.budget_hit {
            return Err(format!("op {} {}: did not finish within the operation budget", idx, what));
        }
        let reached = armed.map_or(false, |a| wb.ops > a);
        if let Err(e) = &r {
            if !reached {
                return Err(format!("op {} {}: returned {:?} although no pin operation failed", idx, what, e));
            }
            // a pin operation failed and the call reported it: whatever was latched up to then must be
            // the beginning of the words sent - no strobe may latch a half-updated or stale bus
            let got = &wb.latch_log[log0..];
            if got.len() > expected.len() || got != &expected[..got.len()] {
                let pos = got.iter().zip(expected.iter()).position(|(a, b)| a != b).unwrap_or(got.len().min(expected.len()));
                return Err(format!(
                    "op {} {}: pin operation {} of the call failed ({:?}); the words latched at WR rising edges in that call are not a prefix of the words sent: index {} got {:?}, expected {:?} [(dc_high, word)]",
                    idx, what, armed.unwrap() - ops0, e, pos, got.get(pos), expected.get(pos)
                ));
            }
            drop(wb);
            w.borrow_mut().fail_at.clear();
            info.label(if case.late { "late-pin-fault-inside-a-transfer" } else { "pin-fault-inside-a-transfer" });
            info.nontrivial = true;
            continue;
        }
        // only electrical-level decode problems matter here (the Panel's command semantics do not)
        if let Some(e) = wb.decode_errors.iter().find(|e| e.contains("undefined") || e.contains("unexpected")) {
            return Err(format!("op {} {}: {}", idx, what, e));
        }
        let got = &wb.latch_log[log0..];
        if got != &expected[..] {
            let pos = got.iter().zip(expected.iter()).position(|(a, b)| a != b).unwrap_or(got.len().min(expected.len()));
            return Err(format!(
                "op {} {}: words latched at WR rising edges differ from the words sent at index {} (got {} words, expected {}): got {:?}, expected {:?} [(dc_high, word)]",
                idx,
                what,
                pos,
                got.len(),
                expected.len(),
                got.get(pos),
                expected.get(pos)
            ));
        }
        if expected.windows(2).any(|p| p[0].1 == p[1].1) {
            info.label("equal-consecutive-words");
            info.nontrivial = true;
        }
        if let ParOp::Repeat { pixel, count } = op {
            if pixel[..N].iter().all(|v| (*v & mask) == (pixel[0] & mask)) && *count > 0 {
                info.label("all-equal-repeated-pixel");
                info.nontrivial = true;
            }
            if *count == 0 {
                info.label("repeat-count-0");
            }
        }
    }
    info.label(if case.wide { "16-bit" } else { "8-bit" });
    Ok(())
}

pub fn check(case: &ParCase, info: &mut CaseInfo) -> Result<(), String> {
    crate::dut::install_panic_hook();
    let r = std::panic::catch_unwind(std::panic::AssertUnwindSafe(|| {
        let w = World::new(8, 8, if case.wide { 16 } else { 8 });
        w.borrow_mut().latch_on = true;
        if case.wide {
            let di = ParallelInterface::new(Generic16BitBus::new(pins16(&w)), pin(&w, Src::Dc), pin(&w, Src::Wr));
            match case.n {
                1 => exec::<_, u16, 1>(di, &w, case, info),
                2 => exec::<_, u16, 2>(di, &w, case, info),
                _ => exec::<_, u16, 3>(di, &w, case, info),
            }
        } else {
            let di = ParallelInterface::new(Generic8BitBus::new(pins8(&w)), pin(&w, Src::Dc), pin(&w, Src::Wr));
            match case.n {
                1 => exec::<_, u8, 1>(di, &w, case, info),
                2 => exec::<_, u8, 2>(di, &w, case, info),
                _ => exec::<_, u8, 3>(di, &w, case, info),
            }
        }
    }));
    match r {
        Ok(r) => r,
        Err(_) => Err("parallel transport panicked".into()),
    }
}

/// words biased towards equal consecutive values and single-bit differences
fn word(prev_bias: u16) -> BoxedStrategy<u16> {
    prop_oneof![
        3 => Just(prev_bias),
        2 => (0u32..16).prop_map(move |b| prev_bias ^ (1 << b)),
        1 => Just(0u16),
        1 => Just(0xffffu16),
        1 => Just(0x00ffu16),
        3 => any::<u16>(),
    ]
    .boxed()
}

pub fn strategy() -> BoxedStrategy<ParCase> {
    (any::<bool>(), 1u8..=3, any::<u16>())
        .prop_flat_map(|(wide, n, base)| {
            let px = proptest::collection::vec(word(base), n as usize);
            let cmd = (prop_oneof![4 => Just((base & 0xff) as u8), 4 => any::<u8>(), 1 => Just(0u8)], proptest::collection::vec(prop_oneof![Just((base & 0xff) as u8), any::<u8>()], 0..=18))
                .prop_map(|(cmd, args)| ParOp::Cmd { cmd, args });
            let pixels = proptest::collection::vec(px.clone(), 0..40).prop_map(|px| ParOp::Pixels { px });
            let same = word(base).prop_map(move |v| vec![v; n as usize]);
            let rep = (prop_oneof![2 => same, 2 => px], prop_oneof![Just(0u32), Just(1u32), Just(2u32), 0u32..300]).prop_map(|(pixel, count)| ParOp::Repeat { pixel, count });
            let faults = prop_oneof![
                2 => Just(Vec::new()),
                3 => proptest::collection::vec((0u8..6, prop_oneof![3 => 0u16..40, 1 => 0u16..600]), 1..=2),
            ];
            (Just(wide), Just(n), proptest::collection::vec(prop_oneof![2 => cmd, 3 => pixels, 3 => rep], 1..=6), faults, any::<bool>())
        })
        .prop_map(|(wide, n, ops, faults, late)| ParCase { wide, n, ops, faults, late })
        .boxed()
}

// ---- (b) OutputBus::set_value histories with injected single data pin failures

#[derive(Clone, Debug, PartialEq, Eq, Hash, Serialize, Deserialize)]
pub struct BusCase {
    pub wide: bool,
    /// a failing pin write still changes the pin level
    #[serde(default)]
    pub late: bool,
    /// (value, data pin whose next write fails)
    pub steps: Vec<(u16, Option<u8>)>,
}

fn bus_exec<B: OutputBus<Error = Fault>>(mut bus: B, w: &W, case: &BusCase, info: &mut CaseInfo, mk: impl Fn(u16) -> B::Word) -> Result<(), String> {
    let bits = if case.wide { 16 } else { 8 };
    let mask: u16 = if case.wide { 0xffff } else { 0xff };
    w.borrow_mut().late_faults = case.late;
    if case.late {
        info.label("late-faults");
    }
    let mut last_ok: Option<u16> = None;
    let mut failed_before: Option<(u16, Option<u16>)> = None; // (attempted, cached before)
    for (i, (v, fail)) in case.steps.iter().enumerate() {
        let v = *v & mask;
        w.borrow_mut().fail_data_pin = fail.map(|p| p % bits);
        let r = bus.set_value(mk(v));
        let hit = w.borrow().fail_data_pin.is_none() && fail.is_some();
        w.borrow_mut().fail_data_pin = None;
        match r {
            Ok(()) => {
                if hit {
                    return Err(format!("step {}: a data pin write failed but set_value({:#x}) returned Ok", i, v));
                }
                let wb = w.borrow();
                let mut level = 0u16;
                for b in 0..bits as usize {
                    match wb.data[b] {
                        Some(true) => level |= 1 << b,
                        Some(false) => {}
                        None => return Err(format!("step {}: set_value({:#x}) succeeded but data pin {} was never driven", i, v, b)),
                    }
                }
                if level != v {
                    return Err(format!(
                        "step {}: after a successful set_value({:#06x}) the data pins show {:#06x} (history: {:?})",
                        i,
                        v,
                        level,
                        &case.steps[..=i]
                    ));
                }
                if let Some((att, cached)) = failed_before {
                    if v == att || Some(v) == cached {
                        info.label("value-equals-cached-or-attempted-after-failure");
                        info.nontrivial = true;
                    }
                }
                last_ok = Some(v);
                failed_before = None;
            }
            Err(_) => {
                if !hit {
                    return Err(format!("step {}: set_value({:#x}) failed although no pin write failed", i, v));
                }
                info.label("pin-failure-hit");
                if failed_before.is_none() {
                    failed_before = Some((v, last_ok));
                }
            }
        }
    }
    Ok(())
}

pub fn check_bus(case: &BusCase, info: &mut CaseInfo) -> Result<(), String> {
    crate::dut::install_panic_hook();
    let r = std::panic::catch_unwind(std::panic::AssertUnwindSafe(|| {
        let w = World::new(8, 8, if case.wide { 16 } else { 8 });
        if case.wide {
            bus_exec(Generic16BitBus::new(pins16(&w)), &w, case, info, |v| v)
        } else {
            bus_exec(Generic8BitBus::new(pins8(&w)), &w, case, info, |v| v as u8)
        }
    }));
    match r {
        Ok(r) => r,
        Err(_) => Err("OutputBus::set_value panicked".into()),
    }
}

pub fn bus_strategy() -> BoxedStrategy<BusCase> {
    (any::<bool>(), any::<u16>(), any::<bool>())
        .prop_flat_map(|(wide, base, late)| {
            // few distinct values, so that "equal to the cached / attempted value" happens often
            let val = prop_oneof![3 => Just(base), 2 => Just(!base), 2 => (0u32..16).prop_map(move |b| base ^ (1 << b)), 1 => any::<u16>(), 1 => Just(0u16), 1 => Just(0xffffu16)];
            let step = (val, prop_oneof![3 => Just(None), 2 => (0u8..16).prop_map(Some)]);
            (Just(wide), Just(late), proptest::collection::vec(step, 1..12))
        })
        .prop_map(|(wide, late, steps)| BusCase { wide, late, steps })
        .boxed()
}

// ---- (c) repeat counts whose strobe count exceeds 2^32, on lean pins (no World: ~1 ns per strobe)

pub struct LeanWr {
    pub level: bool,
    pub rising: std::rc::Rc<std::cell::Cell<u64>>,
}
impl embedded_hal::digital::ErrorType for LeanWr {
    type Error = Fault;
}
impl embedded_hal::digital::OutputPin for LeanWr {
    #[inline]
    fn set_low(&mut self) -> Result<(), Fault> {
        self.level = false;
        Ok(())
    }
    #[inline]
    fn set_high(&mut self) -> Result<(), Fault> {
        if !self.level {
            self.rising.set(self.rising.get() + 1);
        }
        self.level = true;
        Ok(())
    }
}

#[derive(Clone, Debug, PartialEq, Eq, Hash, Serialize, Deserialize)]
pub struct BigRepeat {
    /// words per pixel (2 or 3)
    pub n: u8,
    pub word: u8,
    pub count: u32,
}

pub fn check_big(case: &BigRepeat, info: &mut CaseInfo) -> Result<(), String> {
    crate::dut::install_panic_hook();
    let rising = std::rc::Rc::new(std::cell::Cell::new(0u64));
    let r2 = rising.clone();
    let case2 = case.clone();
    let r = std::panic::catch_unwind(std::panic::AssertUnwindSafe(move || {
        let w = World::new(8, 8, 8);
        let wr = LeanWr { level: true, rising: r2 };
        let mut di = ParallelInterface::new(Generic8BitBus::new(pins8(&w)), pin(&w, Src::Dc), wr);
        di.send_command(0x2C, &[]).map_err(|e| format!("{:?}", e))?;
        let r = match case2.n {
            2 => di.send_repeated_pixel([case2.word; 2], case2.count),
            _ => di.send_repeated_pixel([case2.word; 3], case2.count),
        };
        r.map_err(|e| format!("{:?}", e))?;
        // data pins must still show the word
        let wb = w.borrow();
        let mut level = 0u8;
        for b in 0..8 {
            if wb.data[b] == Some(true) {
                level |= 1 << b;
            }
        }
        if level != case2.word {
            return Err(format!("data pins show {:#x} instead of {:#x}", level, case2.word));
        }
        Ok(())
    }));
    let expect = 1 + case.count as u64 * case.n as u64;
    match r {
        Err(_) => Err(format!(
            "send_repeated_pixel([{:#x}; {}], {}) panicked ({} strobes needed, more than 2^32)",
            case.word, case.n, case.count, expect - 1
        )),
        Ok(Err(e)) => Err(e),
        Ok(Ok(())) => {
            info.nontrivial = expect - 1 >= (1u64 << 32);
            if rising.get() != expect {
                Err(format!(
                    "send_repeated_pixel([{:#x}; {}], {}): {} write strobes seen, {} words had to be latched",
                    case.word,
                    case.n,
                    case.count,
                    rising.get() - 1,
                    expect - 1
                ))
            } else {
                Ok(())
            }
        }
    }
}

fn sig(c: &ParCase, reason: &str) -> String {
    let kind = if reason.contains("differ") {
        "words-differ"
    } else if reason.contains("panicked") {
        "panic"
    } else if reason.contains("budget") {
        "runaway"
    } else {
        "other"
    };
    format!("c07:{}:{}", if c.wide { "16" } else { "8" }, kind)
}

pub fn run(ctx: &Ctx) -> Report {
    let mut rep = Report::new("C07", "exploration");
    rep.assumptions = vec![
        "WR idles high before the first call (documented user obligation); the controller latches the data pins at each low->high transition of WR".into(),
        "repeat counts whose strobe count exceeds 2^32 are out of reach of pin-level simulation in the quick tier (see DESIGN 7.2 D5)".into(),
    ];
    let mut sec = Section::new(
        &format!("word-sequences[{}]", ctx.variant),
        "8- and 16-bit bus, 1..3 words per pixel, 1..6 ops of send_command / send_pixels / send_repeated_pixel with words biased to equal consecutive values, single-bit differences and all-equal pixels, repeat counts 0..300; oracle: (D/C, data pins) sampled at every WR rising edge == instruction (D/C low), parameters, pixel words (D/C high) exactly, no undefined pin sampled; non-trivial = equal consecutive words or an all-equal repeated pixel",
    );
    run_generated(&mut sec, ctx.seed, ctx.cases(300_000, 8_000_000), ctx.workers, strategy, check, sig);
    rep.sections.push(sec);
    let mut sec = Section::new(
        &format!("set-value-histories[{}]", ctx.variant),
        "histories of OutputBus::set_value on Generic8BitBus/Generic16BitBus with a single data-pin failure injected at generated steps (the failed write either leaves the pin level or changes it although it reports failure); invariant after every successful call: pin levels == value; non-trivial = a failure followed by a value equal to the cached or the attempted one",
    );
    run_generated(&mut sec, ctx.seed ^ 7, ctx.cases(500_000, 12_000_000), ctx.workers, bus_strategy, check_bus, |c, _| format!("c07:bus:{}", if c.wide { 16 } else { 8 }));
    rep.sections.push(sec);
    {
        let mut sec = Section::new(
            &format!("huge-repeat[{}]", ctx.variant),
            "all-equal pixel repeated so often that count*N exceeds 2^32 (reachable with clear() on an external model of more than 2^31 pixels); WR strobes counted on a lean pin; non-trivial = strobe count >= 2^32",
        );
        let mut cases = vec![BigRepeat { n: 2, word: 0x00, count: 1 << 31 }, BigRepeat { n: 2, word: 0x11, count: 70_000 }];
        if ctx.tier == super::Tier::Thorough {
            cases.extend([
                BigRepeat { n: 2, word: 0xff, count: (1 << 31) + 5 },
                BigRepeat { n: 3, word: 0x3c, count: 1_431_655_766 },
                BigRepeat { n: 2, word: 0x11, count: (1 << 31) - 1 },
                BigRepeat { n: 3, word: 0x00, count: u32::MAX },
            ]);
        }
        sec.exhaustive = false;
        run_enumerated(&mut sec, cases, 4, check_big, |_, _| "c07:huge-repeat".into());
        rep.sections.push(sec);
    }
    rep
}

pub fn replay(section: &str, case: &Value) -> Result<(), String> {
    if section.starts_with("huge-repeat") {
        return check_big(&de::<BigRepeat>(case)?, &mut CaseInfo::default());
    }
    if section.starts_with("set-value") {
        check_bus(&de::<BusCase>(case)?, &mut CaseInfo::default())
    } else {
        check(&de::<ParCase>(case)?, &mut CaseInfo::default())
    }
}

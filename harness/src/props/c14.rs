//! C14 — address-mode byte is the exact MIPI encoding of colour/orientation/refresh order.

use super::{de, Ctx};
use crate::oracle::{derive_orientation_bits, madctl_expected};
use crate::runner::*;
use crate::types::*;
use mipidsi::dcs::{DcsCommand, SetAddressMode};
use mipidsi::options::{ColorOrder, HorizontalRefreshOrder, ModelOptions, RefreshOrder, VerticalRefreshOrder};
use proptest::prelude::*;
use serde::{Deserialize, Serialize};
use serde_json::Value;

/// one of the 14 setter values
#[derive(Clone, Copy, Debug, PartialEq, Eq, Hash, Serialize, Deserialize)]
pub enum Setter {
    Color { bgr: bool },
    Orientation(Orient),
    Refresh { v: bool, h: bool },
}

pub fn all_setters() -> Vec<Setter> {
    let mut v = vec![Setter::Color { bgr: false }, Setter::Color { bgr: true }];
    v.extend(Orient::ALL.iter().map(|o| Setter::Orientation(*o)));
    for (a, b) in [(false, false), (false, true), (true, false), (true, true)] {
        v.push(Setter::Refresh { v: a, h: b });
    }
    v
}

#[derive(Clone, Debug, PartialEq, Eq, Hash, Serialize, Deserialize)]
pub struct ModeCase {
    pub bgr: bool,
    pub orient: Orient,
    pub refresh_v: bool,
    pub refresh_h: bool,
    /// constructed through From<&ModelOptions> instead of new()
    pub via_options: bool,
    pub word: Vec<Setter>,
}

fn co(bgr: bool) -> ColorOrder {
    if bgr {
        ColorOrder::Bgr
    } else {
        ColorOrder::Rgb
    }
}
fn ro(v: bool, h: bool) -> RefreshOrder {
    RefreshOrder::new(
        if v { VerticalRefreshOrder::BottomToTop } else { VerticalRefreshOrder::TopToBottom },
        if h { HorizontalRefreshOrder::RightToLeft } else { HorizontalRefreshOrder::LeftToRight },
    )
}

fn byte_of(m: &SetAddressMode) -> Result<u8, String> {
    if m.instruction() != 0x36 {
        return Err(format!("set-address-mode reports opcode {:#x}", m.instruction()));
    }
    let mut buf = [0x5Au8; 16];
    let n = m.fill_params_buf(&mut buf);
    if n != 1 {
        return Err(format!("set-address-mode wrote {} parameter bytes", n));
    }
    if buf[1..].iter().any(|b| *b != 0x5A) {
        return Err("set-address-mode touched bytes beyond its parameter".into());
    }
    Ok(buf[0])
}

thread_local! { static TABLE: [u8; 8] = derive_orientation_bits(); }

pub fn check(c: &ModeCase, info: &mut CaseInfo) -> Result<(), String> {
    let table = TABLE.with(|t| *t);
    let mut m = if c.via_options {
        let mut o = ModelOptions::with_all((3, 2), (0, 0));
        o.color_order = co(c.bgr);
        o.orientation = c.orient.to_mipidsi();
        o.refresh_order = ro(c.refresh_v, c.refresh_h);
        SetAddressMode::from(&o)
    } else {
        SetAddressMode::new(co(c.bgr), c.orient.to_mipidsi(), ro(c.refresh_v, c.refresh_h))
    };
    let (mut bgr, mut orient, mut rv, mut rh) = (c.bgr, c.orient, c.refresh_v, c.refresh_h);
    let got = byte_of(&m)?;
    let want = madctl_expected(&table, orient, bgr, rv, rh);
    if got != want {
        return Err(format!(
            "address mode for bgr={} {:?} refresh(v={},h={}) is {:#010b}, MIPI encoding is {:#010b}",
            bgr, orient, rv, rh, got, want
        ));
    }
    for (i, s) in c.word.iter().enumerate() {
        match s {
            Setter::Color { bgr: b } => {
                m = m.with_color_order(co(*b));
                bgr = *b;
            }
            Setter::Orientation(o) => {
                m = m.with_orientation(o.to_mipidsi());
                orient = *o;
            }
            Setter::Refresh { v, h } => {
                m = m.with_refresh_order(ro(*v, *h));
                rv = *v;
                rh = *h;
            }
        }
        let got = byte_of(&m)?;
        let want = madctl_expected(&table, orient, bgr, rv, rh);
        if got != want {
            return Err(format!(
                "after setter #{} ({:?}) the address mode is {:#010b}; encoding of the last value of each field (bgr={} {:?} v={} h={}) is {:#010b}",
                i, s, got, bgr, orient, rv, rh, want
            ));
        }
    }
    info.nontrivial = !c.word.is_empty() || got != 0;
    Ok(())
}

fn enumerated() -> Vec<ModeCase> {
    let setters = all_setters();
    let mut out = Vec::new();
    for bgr in [false, true] {
        for orient in Orient::ALL {
            for rv in [false, true] {
                for rh in [false, true] {
                    for via in [false, true] {
                        out.push(ModeCase { bgr, orient, refresh_v: rv, refresh_h: rh, via_options: via, word: vec![] });
                    }
                    // all words of length <= 3 (prefixes are checked on the way, so only length 3 is needed,
                    // but lengths 1 and 2 are kept for readable minimal failures)
                    for a in &setters {
                        out.push(ModeCase { bgr, orient, refresh_v: rv, refresh_h: rh, via_options: false, word: vec![*a] });
                        for b in &setters {
                            out.push(ModeCase { bgr, orient, refresh_v: rv, refresh_h: rh, via_options: false, word: vec![*a, *b] });
                            for c in &setters {
                                out.push(ModeCase { bgr, orient, refresh_v: rv, refresh_h: rh, via_options: false, word: vec![*a, *b, *c] });
                            }
                        }
                    }
                }
            }
        }
    }
    out
}

fn strategy() -> BoxedStrategy<ModeCase> {
    let setter = proptest::sample::select(all_setters());
    (any::<[bool; 4]>(), crate::gen::orient(), proptest::collection::vec(setter, 0..=10))
        .prop_map(|(b, orient, word)| ModeCase { bgr: b[0], orient, refresh_v: b[1], refresh_h: b[2], via_options: b[3], word })
        .boxed()
}

pub fn run(ctx: &Ctx) -> Report {
    let mut rep = Report::new("C14", "exploration");
    let table = derive_orientation_bits();
    rep.assumptions = vec![format!(
        "MY/MX/MV per orientation derived by brute force from the Panel addressing and the geometric reference: {:?}",
        table.iter().map(|b| format!("{:#05b}", b >> 5)).collect::<Vec<_>>()
    )];
    let mut sec = Section::new(
        &format!("enumerated[{}]", ctx.variant),
        "all 64 input combinations through new() and From<&ModelOptions>, and every word of length <= 3 over the 14 setter values from each of the 64 start values (checked after every setter); oracle: derived MY/MX/MV table + MIPI bit positions, bits 1-0 zero; non-trivial = word non-empty or byte non-zero",
    );
    sec.exhaustive = true;
    run_enumerated(&mut sec, enumerated(), ctx.workers, check, |_, _| "c14:encoding".into());
    rep.sections.push(sec);
    let mut sec = Section::new(&format!("generated[{}]", ctx.variant), "start value x setter words up to length 10");
    run_generated(&mut sec, ctx.seed, ctx.cases(300_000, 6_000_000), ctx.workers, strategy, check, |_, _| "c14:encoding".into());
    rep.sections.push(sec);
    // the byte a live display sends: every orientation -> orientation transition through
    // Display::set_orientation (which changes one input on the value cached since init)
    let mut sec = Section::new(
        &format!("display-transitions[{}]", ctx.variant),
        "all 8x8 set_orientation transitions on displays with 5 option/geometry sets (C10's all-transitions cases): the address mode that reaches the controller is the encoding of the new orientation with unchanged colour-order and refresh bits, and drawing agrees with a display built that way",
    );
    sec.exhaustive = true;
    run_enumerated(&mut sec, super::c10::all_transitions(), ctx.workers, super::c10::check, |_, r| format!("c14:display:{}", r.chars().take(30).collect::<String>()));
    rep.sections.push(sec);
    rep
}

pub fn replay(section: &str, case: &Value) -> Result<(), String> {
    if section.starts_with("display-transitions") {
        return super::c10::check(&de::<super::c10::OrientCase>(case)?, &mut CaseInfo::default());
    }
    check(&de::<ModeCase>(case)?, &mut CaseInfo::default())
}

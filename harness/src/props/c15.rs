//! C15 — orientation operations compose like rectangle symmetries; angle parsing is total.

use super::{de, Ctx, Tier};
use crate::exec::Session;
use crate::models::ModelId;
use crate::runner::*;
use crate::types::*;
use mipidsi::options::{Orientation, Rotation};
use proptest::prelude::*;
use serde::{Deserialize, Serialize};
use serde_json::Value;

#[derive(Clone, Copy, Debug, PartialEq, Eq, Hash, Serialize, Deserialize)]
pub enum Step {
    Rotate(u8),
    FlipH,
    FlipV,
}

pub const STEPS: [Step; 6] = [Step::Rotate(0), Step::Rotate(1), Step::Rotate(2), Step::Rotate(3), Step::FlipH, Step::FlipV];

#[derive(Clone, Debug, PartialEq, Eq, Hash, Serialize, Deserialize)]
pub struct WordCase {
    pub start: Orient,
    pub word: Vec<Step>,
}

fn rot(q: u8) -> Rotation {
    match q & 3 {
        0 => Rotation::Deg0,
        1 => Rotation::Deg90,
        2 => Rotation::Deg180,
        _ => Rotation::Deg270,
    }
}

fn apply(o: Orientation, s: Step) -> Orientation {
    match s {
        Step::Rotate(q) => o.rotate(rot(q)),
        Step::FlipH => o.flip_horizontal(),
        Step::FlipV => o.flip_vertical(),
    }
}

/// panel content (physical cells) shown by a display with orientation `o` after drawing image `img`
/// (row-major colours over the logical size of `o`)
fn show(o: Orient, img: &dyn Fn(u32, u32) -> u32, geom: u8, side: u8) -> Result<Vec<(u32, u32, u32)>, String> {
    let mut cfg = Config::full(ModelId::E7x5, Transport::Rec8);
    cfg.w = 4;
    cfg.h = 3;
    // three placements of the 4x3 window in the 7x5 framebuffer: off-centre, top-left corner
    // (offset (0,0) with a window smaller than the framebuffer) and bottom-right corner
    let (ox, oy) = [(2, 1), (0, 0), (3, 2)][geom as usize % 3];
    cfg.ox = ox;
    cfg.oy = oy;
    cfg.orient = o;
    // the orientation is either given to the builder or reached at run time from another one - in a
    // different way on the two sides of a comparison, so that an error of the run-time path cannot
    // cancel out: "under the orientation o" does not say how o was set
    let mut s = match (geom as usize / 9 + side as usize) % 3 {
        0 => Session::start(&cfg)?,
        k => {
            let mut cfg0 = cfg.clone();
            // a start that differs in the mirror flag only (k = 1) or in rotation and mirror flag (k = 2)
            cfg0.orient = Orient { rot: (o.rot + if k == 1 { 0 } else { 1 }) & 3, mirrored: !o.mirrored };
            let mut s = Session::start(&cfg0)?;
            s.dut.set_orientation(o).map_err(|e| format!("set_orientation failed: {:?}", e))?;
            s
        }
    };
    let (lw, lh) = cfg.logical_size(o);
    // the picture is put on the screen through one of the entry points (the same one on both sides of
    // a comparison, since `geom` is): pixel by pixel, as one draw_iter stream, or as one fill_contiguous
    match (geom as usize / 3) % 3 {
        0 => {
            for y in 0..lh {
                for x in 0..lw {
                    s.dut.set_pixel(x as u16, y as u16, img(x, y)).map_err(|e| format!("{:?}", e))?;
                }
            }
        }
        1 => {
            let mut it = (0..lh).flat_map(|y| (0..lw).map(move |x| (x, y))).map(|(x, y)| (x as i32, y as i32, img(x, y)));
            s.dut.draw_iter(&mut it).map_err(|e| format!("{:?}", e))?;
        }
        _ => {
            let mut it = (0..lh).flat_map(|y| (0..lw).map(move |x| (x, y))).map(|(x, y)| img(x, y));
            s.dut.fill_contiguous(&Rect { x: 0, y: 0, w: lw, h: lh }, &mut it).map_err(|e| format!("{:?}", e))?;
        }
    }
    let m = s.w.borrow().panel.mem.written();
    Ok(m)
}

fn logical(o: Orient) -> (u32, u32) {
    if o.vertical() {
        (3, 4)
    } else {
        (4, 3)
    }
}

/// geometric meaning of one step: display(o.step) drawing I  ==  display(o) drawing transform(I)
fn check_step(o: Orient, s: Step, geom: u8) -> Result<Orient, String> {
    let o2 = Orient::from_mipidsi(apply(o.to_mipidsi(), s));
    let (w2, h2) = logical(o2);
    // image over the logical space of o2: unique colour per pixel
    let img = move |x: u32, y: u32| 1 + y * 16 + x;
    let shown2 = show(o2, &img, geom, 0)?;
    // the same picture pre-transformed, drawn under o
    let (w1, h1) = logical(o);
    let pre: Box<dyn Fn(u32, u32) -> u32> = match s {
        // I rotated clockwise by q quarter turns: the pixel at (x1,y1) of the rotated image comes from I
        Step::Rotate(q) => Box::new(move |x1: u32, y1: u32| {
            // inverse of the clockwise rotation (x,y) -> rotated position
            let (x, y) = match q & 3 {
                0 => (x1, y1),
                // cw 90: (x,y) -> (h2-1-y, x)  =>  x = y1, y = h2-1-x1
                1 => (y1, h2 - 1 - x1),
                // 180: (x,y) -> (w2-1-x, h2-1-y)
                2 => (w2 - 1 - x1, h2 - 1 - y1),
                // cw 270: (x,y) -> (y, w2-1-x)  =>  y = x1, x = w2-1-y1
                _ => (w2 - 1 - y1, x1),
            };
            img(x, y)
        }),
        // mirrored left-right
        Step::FlipH => Box::new(move |x1: u32, y1: u32| img(w2 - 1 - x1, y1)),
        // mirrored top-bottom
        Step::FlipV => Box::new(move |x1: u32, y1: u32| img(x1, h2 - 1 - y1)),
    };
    // size bookkeeping: the transformed image must fit the logical size of o
    let expect_dims = match s {
        Step::Rotate(q) if q & 1 == 1 => (h2, w2),
        _ => (w2, h2),
    };
    if expect_dims != (w1, h1) {
        return Err(format!("{:?} then {:?} gives {:?}, whose logical size {:?} does not match the transformed image", o, s, o2, (w2, h2)));
    }
    let shown1 = show(o, &*pre, geom, 1)?;
    if shown1 != shown2 {
        return Err(format!(
            "{:?} extended by {:?} gives {:?}: it does not show the picture that {:?} shows for the correspondingly pre-transformed image",
            o, s, o2, o
        ));
    }
    Ok(o2)
}

pub fn check(c: &WordCase, info: &mut CaseInfo) -> Result<(), String> {
    let mut o = c.start;
    let geom = (c.word.len() * 5 + c.start.index() * 3 + c.word.iter().map(|s| match s { Step::Rotate(q) => *q as usize, Step::FlipH => 4, Step::FlipV => 5 }).sum::<usize>()) as u8;
    for (i, s) in c.word.iter().enumerate() {
        o = check_step(o, *s, geom.wrapping_add(i as u8))?;
    }
    // consequences, directly on the API
    let m = c.start.to_mipidsi();
    let mut r4 = m;
    for _ in 0..4 {
        r4 = r4.rotate(Rotation::Deg90);
    }
    if r4 != m {
        return Err(format!("four quarter turns from {:?} give {:?}", m, r4));
    }
    if m.flip_horizontal().flip_horizontal() != m || m.flip_vertical().flip_vertical() != m {
        return Err(format!("two equal flips from {:?} do not give it back", m));
    }
    if m.flip_horizontal().flip_vertical() != m.rotate(Rotation::Deg180) {
        return Err(format!("horizontal then vertical flip of {:?} is not a half turn", m));
    }
    for a in 0..4u8 {
        for b in 0..4u8 {
            if m.rotate(rot(a)).rotate(rot(b)) != m.rotate(rot((a + b) & 3)) {
                return Err(format!("rotations {}+{} quarter turns from {:?} do not add modulo 360", a, b, m));
            }
            if rot(a).rotate(rot(b)) != rot((a + b) & 3) {
                return Err(format!("Rotation::rotate: {} + {} quarter turns", a, b));
            }
        }
    }
    info.nontrivial = !c.word.is_empty();
    Ok(())
}

fn words(max: usize) -> Vec<WordCase> {
    let mut out = Vec::new();
    for start in Orient::ALL {
        let mut frontier: Vec<Vec<Step>> = vec![vec![]];
        out.push(WordCase { start, word: vec![] });
        for _ in 0..max {
            let mut next = Vec::new();
            for w in &frontier {
                for s in STEPS {
                    let mut w2 = w.clone();
                    w2.push(s);
                    out.push(WordCase { start, word: w2.clone() });
                    next.push(w2);
                }
            }
            frontier = next;
        }
    }
    out
}

// ---- angle parsing

/// oracle in i64
fn angle_expect(a: i32) -> Option<i32> {
    let a = a as i64;
    if a.rem_euclid(90) != 0 {
        None
    } else {
        Some(a.rem_euclid(360) as i32)
    }
}

fn check_angle(a: i32) -> Result<(), String> {
    let got = std::panic::catch_unwind(|| Rotation::try_from_degree(a).map(|r| r.degree()).ok());
    match got {
        Err(_) => Err(format!("try_from_degree({}) panicked", a)),
        Ok(g) => {
            let e = angle_expect(a);
            if g != e {
                Err(format!("try_from_degree({}) = {:?}, expected {:?}", a, g, e))
            } else {
                Ok(())
            }
        }
    }
}

/// returns (evaluated, multiples of 90 seen, first failure)
fn angle_range(lo: i64, hi: i64) -> (u64, u64, Option<(i32, String)>) {
    let mut n = 0u64;
    let mut m = 0u64;
    let mut a = lo;
    while a <= hi {
        let ai = a as i32;
        // fast path without catch_unwind; fall back to the guarded check on mismatch
        let g = Rotation::try_from_degree(ai).map(|r| r.degree()).ok();
        let e = angle_expect(ai);
        n += 1;
        if e.is_some() {
            m += 1;
        }
        if g != e {
            return (n, m, Some((ai, check_angle(ai).err().unwrap_or_else(|| "mismatch".into()))));
        }
        a += 1;
    }
    (n, m, None)
}

#[derive(Clone, Debug, PartialEq, Eq, Hash, Serialize, Deserialize)]
pub struct AngleCase {
    pub angle: i32,
}

fn angle_strategy() -> BoxedStrategy<AngleCase> {
    prop_oneof![
        2 => any::<i32>(),
        2 => any::<i32>().prop_map(|k| (k / 90).wrapping_mul(90)),
        1 => (-4000i32..4000),
        1 => (0i32..2000).prop_map(|d| i32::MIN + d),
        1 => (0i32..2000).prop_map(|d| i32::MAX - d),
    ]
    .prop_map(|angle| AngleCase { angle })
    .boxed()
}

pub fn run(ctx: &Ctx) -> Report {
    let mut rep = Report::new("C15", "exploration");
    rep.assumptions = vec![
        "rotation is clockwise; flip_horizontal mirrors the picture left-right, flip_vertical top-bottom (as the property states)".into(),
        "geometric meaning observed through a real Display (4x3 window at (2,1), (0,0) or (3,2) of a 7x5 framebuffer, unique colour per pixel, drawn with set_pixel, draw_iter or fill_contiguous; with and without the batch feature) and the Panel".into(),
    ];
    let max = if ctx.tier == Tier::Thorough { 5 } else { 4 };
    let mut sec = Section::new(
        &format!("words[{}]", ctx.variant),
        "8 start orientations x every word over {rotate 0/90/180/270, flip_horizontal, flip_vertical} up to length 4 (5 in thorough); every step judged geometrically (display with the extended orientation drawing I == display with the original orientation drawing the pre-rotated / pre-mirrored I), then the algebraic consequences on the API; non-trivial = non-empty word",
    );
    sec.exhaustive = true;
    // steps repeat across words: memoise per (orientation, step) would hide nothing, but the plain run is cheap enough
    run_enumerated(&mut sec, words(max), ctx.workers, check, |_, _| "c15:algebra".into());
    rep.sections.push(sec);

    // angles (independent of the batch feature: one build variant scans them)
    if !cfg!(feature = "batch") {
        return rep;
    }
    let full = ctx.tier == Tier::Thorough;
    let mut sec = Section::new(
        &format!("angles[{}]", ctx.variant),
        if full {
            "all 2^32 i32 angles: Ok exactly for multiples of 90, degree congruent modulo 360 (oracle in i64), no panic with overflow checks on; non-trivial = multiples of 90"
        } else {
            "all angles with |a| <= 2^21, all within 2000 of i32::MIN / i32::MAX, plus generated; Ok exactly for multiples of 90, degree congruent modulo 360 (oracle in i64), no panic; non-trivial = multiples of 90"
        },
    );
    sec.exhaustive = full;
    let ranges: Vec<(i64, i64)> = if full {
        let parts = 64i64;
        let span = (1i64 << 32) / parts;
        (0..parts).map(|p| (i32::MIN as i64 + p * span, i32::MIN as i64 + (p + 1) * span - 1)).collect()
    } else {
        let mut v: Vec<(i64, i64)> = Vec::new();
        let parts = 16i64;
        let span = (1i64 << 22) / parts;
        for p in 0..parts {
            v.push((-(1i64 << 21) + p * span, -(1i64 << 21) + (p + 1) * span - 1));
        }
        v.push((1i64 << 21, 1i64 << 21));
        v.push((i32::MIN as i64, i32::MIN as i64 + 2000));
        v.push((i32::MAX as i64 - 2000, i32::MAX as i64));
        v
    };
    let res: std::sync::Mutex<Vec<(u64, u64, Option<(i32, String)>)>> = std::sync::Mutex::new(Vec::new());
    std::thread::scope(|sc| {
        for (lo, hi) in ranges {
            let res = &res;
            sc.spawn(move || {
                let r = angle_range(lo, hi);
                res.lock().unwrap().push(r);
            });
        }
    });
    let mut multiples = 0u64;
    for (n, m, f) in res.into_inner().unwrap() {
        sec.stats.evaluations += n;
        multiples += m;
        if let Some((a, why)) = f {
            if sec.violations.len() < 3 {
                sec.violations.push(Violation { reason: why, case: serde_json::json!({"angle": a}), signature: "c15:angle".into() });
            }
        }
    }
    for i in 0..multiples.min(1 << 20) {
        sec.stats.nontrivial.insert(i);
    }
    sec.extra.insert("multiples_of_90_seen".into(), serde_json::json!(multiples));
    sec.stats.samples.push(serde_json::json!({"angle": -2147483520, "expected": "Ok(congruent mod 360)"}));
    sec.stats.samples.push(serde_json::json!({"angle": 2147483647, "expected": "Err"}));
    rep.sections.push(sec);

    let mut sec = Section::new(&format!("angles-generated[{}]", ctx.variant), "generated i32 angles (half of them multiples of 90, extremes)");
    run_generated(
        &mut sec,
        ctx.seed,
        ctx.cases(1_000_000, 5_000_000),
        ctx.workers,
        angle_strategy,
        |c, info| {
            info.nontrivial = c.angle % 90 == 0;
            check_angle(c.angle)
        },
        |_, _| "c15:angle".into(),
    );
    rep.sections.push(sec);
    rep
}

pub fn replay(section: &str, case: &Value) -> Result<(), String> {
    if section.starts_with("angles") {
        let a = case["angle"].as_i64().ok_or("HARNESS: no angle")? as i32;
        check_angle(a)
    } else {
        check(&de::<WordCase>(case)?, &mut CaseInfo::default())
    }
}

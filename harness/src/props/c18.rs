//! C18 — DCS command types serialise to their MIPI opcode and big-endian parameters.

use super::{de, Ctx, Tier};
use crate::oracle::{derive_orientation_bits, madctl_expected};
use crate::panel::Tr;
use crate::rig::*;
use crate::runner::*;
use crate::types::Orient;
use mipidsi::dcs::*;
use mipidsi::options::{ColorInversion, ColorOrder, HorizontalRefreshOrder, RefreshOrder, TearingEffect, VerticalRefreshOrder};
use proptest::prelude::*;
use serde::{Deserialize, Serialize};
use serde_json::Value;

#[derive(Clone, Debug, PartialEq, Eq, Hash, Serialize, Deserialize)]
pub enum CmdCase {
    /// parameterless commands by index into BASIC
    Basic(u8),
    AddressMode { bgr: bool, orient: Orient, rv: bool, rh: bool },
    /// indices into the BitsPerPixel variants
    PixelFormat { dpi: u8, dbi: u8, with_all: bool },
    Column { s: u16, e: u16 },
    Page { s: u16, e: u16 },
    ScrollArea { tfa: u16, vsa: u16, bfa: u16 },
    ScrollStart(u16),
    Tearing(u8),
    Invert(bool),
    Raw { instr: u8, params: Vec<u8> },
    /// write_raw / write_command through the real transports at pin level
    /// (transport: 0 = SPI with a staging buffer of `buf` bytes, 1 = 8-bit parallel, 2 = 16-bit parallel)
    RawOnTransport { transport: u8, buf: u8, instr: u8, params: Vec<u8> },
    ScrollAreaOnTransport { transport: u8, buf: u8, tfa: u16, vsa: u16, bfa: u16 },
    /// several raw commands with pixel words in between (state kept by a transport between commands)
    SeqOnTransport { transport: u8, buf: u8, cmds: Vec<(u8, Vec<u8>)>, pixels: Vec<u8> },
    /// SetAddressMode built by new() and then modified by setters (serialisation of the result)
    AddressModeWord(super::c14::ModeCase),
}

const BPP: [(BitsPerPixel, u8); 6] = [
    (BitsPerPixel::Three, 0b001),
    (BitsPerPixel::Eight, 0b010),
    (BitsPerPixel::Twelve, 0b011),
    (BitsPerPixel::Sixteen, 0b101),
    (BitsPerPixel::Eighteen, 0b110),
    (BitsPerPixel::TwentyFour, 0b111),
];

/// opcode table from the MIPI DCS specification
const BASIC: [(&str, u8); 10] = [
    ("SoftReset", 0x01),
    ("EnterSleepMode", 0x10),
    ("ExitSleepMode", 0x11),
    ("EnterPartialMode", 0x12),
    ("EnterNormalMode", 0x13),
    ("SetDisplayOff", 0x28),
    ("SetDisplayOn", 0x29),
    ("ExitIdleMode", 0x38),
    ("EnterIdleMode", 0x39),
    ("WriteMemoryStart", 0x2C),
];

fn serialise(cmd: &dyn DcsCommand) -> Result<(u8, Vec<u8>), String> {
    const POISON: u8 = 0xC3;
    let mut buf = [POISON; 16];
    let n = cmd.fill_params_buf(&mut buf);
    if n > 16 {
        return Err(format!("fill_params_buf reports {} bytes in a 16-byte buffer", n));
    }
    if buf[n..].iter().any(|b| *b != POISON) {
        return Err(format!("fill_params_buf reported {} bytes but touched bytes beyond them: {:?}", n, buf));
    }
    // a second poison value catches "left untouched inside the reported length"
    let mut buf2 = [0x3Cu8; 16];
    let n2 = cmd.fill_params_buf(&mut buf2);
    if n2 != n || buf[..n] != buf2[..n] {
        return Err(format!("fill_params_buf does not write all of the {} bytes it reports", n));
    }
    Ok((cmd.instruction(), buf[..n].to_vec()))
}

/// send through write_command on a recording interface; returns what reached the bus
fn on_bus(f: impl FnOnce(&mut RecIface<u8, KP8>) -> Result<(), Fault>) -> Result<Vec<(u8, Vec<u8>)>, String> {
    let w = World::new(8, 8, 8);
    let mut di = RecIface::<u8, KP8>::new(&w);
    f(&mut di).map_err(|e| format!("{:?}", e))?;
    let tr = w.borrow_mut().panel.take_trace();
    let mut out = Vec::new();
    for t in tr {
        match t {
            Tr::Cmd { op, args, .. } => out.push((op, args)),
            Tr::Pix { .. } => return Err("pixel data on the bus".into()),
        }
    }
    Ok(out)
}

/// object-safe view of the three real transports
trait Tx {
    fn pixels(&mut self, px: &[u8]) -> Result<(), String>;
    fn raw(&mut self, instr: u8, params: &[u8]) -> Result<(), String>;
    fn scroll(&mut self, tfa: u16, vsa: u16, bfa: u16) -> Result<(), String>;
}
impl<T: mipidsi::interface::Interface> Tx for T
where
    T::Error: core::fmt::Debug,
    T::Word: From<u8>,
{
    fn pixels(&mut self, px: &[u8]) -> Result<(), String> {
        self.send_pixels(px.iter().map(|b| [T::Word::from(*b)])).map_err(|e| format!("{:?}", e))
    }
    fn raw(&mut self, instr: u8, params: &[u8]) -> Result<(), String> {
        self.write_raw(instr, params).map_err(|e| format!("{:?}", e))
    }
    fn scroll(&mut self, tfa: u16, vsa: u16, bfa: u16) -> Result<(), String> {
        self.write_command(SetScrollArea::new(tfa, vsa, bfa)).map_err(|e| format!("{:?}", e))
    }
}

/// run `f` against a real transport over pin-level doubles; returns the (D/C high, word) stream the controller latched
fn on_transport(transport: u8, buf: u8, f: impl FnOnce(&mut dyn Tx) -> Result<(), String>) -> Result<Vec<(bool, u16)>, String> {
    use mipidsi::interface::{Generic16BitBus, Generic8BitBus, ParallelInterface, SpiInterface};
    let w = World::new(8, 8, if transport == 2 { 16 } else { 8 });
    w.borrow_mut().latch_on = true;
    match transport {
        0 => {
            let mut buffer = vec![0xA5u8; (buf as usize).max(1)];
            let mut di = SpiInterface::new(SpiDev { w: w.clone() }, pin(&w, Src::Dc), &mut buffer[..]);
            f(&mut di)?;
        }
        1 => {
            let mut di = ParallelInterface::new(Generic8BitBus::new(pins8(&w)), pin(&w, Src::Dc), pin(&w, Src::Wr));
            f(&mut di)?;
        }
        _ => {
            let mut di = ParallelInterface::new(Generic16BitBus::new(pins16(&w)), pin(&w, Src::Dc), pin(&w, Src::Wr));
            f(&mut di)?;
        }
    }
    let wb = w.borrow();
    if let Some(e) = wb.decode_errors.iter().find(|e| e.contains("undefined") || e.contains("unexpected")) {
        return Err(format!("bus decode error: {}", e));
    }
    Ok(wb.latch_log.clone())
}

thread_local! { static TABLE: [u8; 8] = derive_orientation_bits(); }

pub fn check(c: &CmdCase, info: &mut CaseInfo) -> Result<(), String> {
    let judge = |name: &str, cmd: &dyn DcsCommand, op: u8, params: &[u8]| -> Result<(), String> {
        let (gop, gp) = serialise(cmd)?;
        if gop != op {
            return Err(format!("{} reports opcode {:#04x}, MIPI-DCS says {:#04x}", name, gop, op));
        }
        if gp != params {
            return Err(format!("{} serialises parameters {:02x?}, expected {:02x?}", name, gp, params));
        }
        Ok(())
    };
    let bus = |name: &str, got: Vec<(u8, Vec<u8>)>, op: u8, params: &[u8]| -> Result<(), String> {
        if got.len() != 1 || got[0].0 != op || got[0].1 != params {
            return Err(format!("{}: bus saw {:02x?}, expected exactly one command {:#04x} {:02x?}", name, got, op, params));
        }
        Ok(())
    };
    info.nontrivial = true;
    match c {
        CmdCase::Basic(i) => {
            let (name, op) = BASIC[*i as usize % BASIC.len()];
            macro_rules! go {
                ($t:expr) => {{
                    judge(name, &$t, op, &[])?;
                    bus(name, on_bus(|di| di.write_command($t))?, op, &[])
                }};
            }
            match name {
                "SoftReset" => go!(SoftReset),
                "EnterSleepMode" => go!(EnterSleepMode),
                "ExitSleepMode" => go!(ExitSleepMode),
                "EnterPartialMode" => go!(EnterPartialMode),
                "EnterNormalMode" => go!(EnterNormalMode),
                "SetDisplayOff" => go!(SetDisplayOff),
                "SetDisplayOn" => go!(SetDisplayOn),
                "ExitIdleMode" => go!(ExitIdleMode),
                "EnterIdleMode" => go!(EnterIdleMode),
                _ => go!(WriteMemoryStart),
            }
        }
        CmdCase::AddressMode { bgr, orient, rv, rh } => {
            let m = SetAddressMode::new(
                if *bgr { ColorOrder::Bgr } else { ColorOrder::Rgb },
                orient.to_mipidsi(),
                RefreshOrder::new(
                    if *rv { VerticalRefreshOrder::BottomToTop } else { VerticalRefreshOrder::TopToBottom },
                    if *rh { HorizontalRefreshOrder::RightToLeft } else { HorizontalRefreshOrder::LeftToRight },
                ),
            );
            let want = TABLE.with(|t| madctl_expected(t, *orient, *bgr, *rv, *rh));
            judge("SetAddressMode", &m, 0x36, &[want])?;
            bus("SetAddressMode", on_bus(|di| di.write_command(m))?, 0x36, &[want])
        }
        CmdCase::PixelFormat { dpi, dbi, with_all } => {
            let (a, av) = BPP[*dpi as usize % 6];
            let (b, bv) = BPP[*dbi as usize % 6];
            let (pf, want) = if *with_all { (PixelFormat::with_all(a), av << 4 | av) } else { (PixelFormat::new(a, b), av << 4 | bv) };
            if pf.as_u8() != want {
                return Err(format!("PixelFormat::as_u8 = {:#04x}, expected {:#04x}", pf.as_u8(), want));
            }
            let cmd = SetPixelFormat::new(pf);
            judge("SetPixelFormat", &cmd, 0x3A, &[want])?;
            bus("SetPixelFormat", on_bus(|di| di.write_command(cmd))?, 0x3A, &[want])
        }
        CmdCase::Column { s, e } => {
            let p = [s.to_be_bytes(), e.to_be_bytes()].concat();
            info.nontrivial = p[0] != p[1] || p[2] != p[3];
            judge("SetColumnAddress", &SetColumnAddress::new(*s, *e), 0x2A, &p)?;
            bus("SetColumnAddress", on_bus(|di| di.write_command(SetColumnAddress::new(*s, *e)))?, 0x2A, &p)
        }
        CmdCase::Page { s, e } => {
            let p = [s.to_be_bytes(), e.to_be_bytes()].concat();
            info.nontrivial = p[0] != p[1] || p[2] != p[3];
            judge("SetPageAddress", &SetPageAddress::new(*s, *e), 0x2B, &p)?;
            bus("SetPageAddress", on_bus(|di| di.write_command(SetPageAddress::new(*s, *e)))?, 0x2B, &p)
        }
        CmdCase::ScrollArea { tfa, vsa, bfa } => {
            let p = [tfa.to_be_bytes(), vsa.to_be_bytes(), bfa.to_be_bytes()].concat();
            judge("SetScrollArea", &SetScrollArea::new(*tfa, *vsa, *bfa), 0x33, &p)?;
            bus("SetScrollArea", on_bus(|di| di.write_command(SetScrollArea::new(*tfa, *vsa, *bfa)))?, 0x33, &p)
        }
        CmdCase::ScrollStart(o) => {
            let p = o.to_be_bytes();
            info.nontrivial = p[0] != p[1];
            judge("SetScrollStart", &SetScrollStart::new(*o), 0x37, &p)?;
            bus("SetScrollStart", on_bus(|di| di.write_command(SetScrollStart::new(*o)))?, 0x37, &p)
        }
        CmdCase::Tearing(t) => {
            // MIPI-DCS: set_tear_off 0x34 (no parameter); set_tear_on 0x35 with M=0 (V-blank only) / M=1 (V and H blank)
            let (te, op, p): (TearingEffect, u8, Vec<u8>) = match t % 3 {
                0 => (TearingEffect::Off, 0x34, vec![]),
                1 => (TearingEffect::Vertical, 0x35, vec![0]),
                _ => (TearingEffect::HorizontalAndVertical, 0x35, vec![1]),
            };
            judge("SetTearingEffect", &SetTearingEffect::new(te), op, &p)?;
            bus("SetTearingEffect", on_bus(|di| di.write_command(SetTearingEffect::new(te)))?, op, &p)
        }
        CmdCase::Invert(on) => {
            // MIPI-DCS: exit_invert_mode 0x20, enter_invert_mode 0x21
            let (ci, op) = if *on { (ColorInversion::Inverted, 0x21) } else { (ColorInversion::Normal, 0x20) };
            judge("SetInvertMode", &SetInvertMode::new(ci), op, &[])?;
            bus("SetInvertMode", on_bus(|di| di.write_command(SetInvertMode::new(ci)))?, op, &[])
        }
        CmdCase::Raw { instr, params } => {
            info.nontrivial = !params.is_empty();
            bus("write_raw", on_bus(|di| di.write_raw(*instr, params))?, *instr, params)
        }
        CmdCase::RawOnTransport { transport, buf, instr, params } => {
            info.nontrivial = params.len() > *buf as usize;
            let got = on_transport(*transport, *buf, |t| t.raw(*instr, params))?;
            let mut want = vec![(false, *instr as u16)];
            want.extend(params.iter().map(|b| (true, *b as u16)));
            if got != want {
                return Err(format!(
                    "write_raw({:#04x}, {} bytes) through transport {} (buffer {}): controller latched {:02x?}, expected {:02x?}",
                    instr, params.len(), transport, buf, got, want
                ));
            }
            Ok(())
        }
        CmdCase::ScrollAreaOnTransport { transport, buf, tfa, vsa, bfa } => {
            let got = on_transport(*transport, *buf, |t| t.scroll(*tfa, *vsa, *bfa))?;
            let p = [tfa.to_be_bytes(), vsa.to_be_bytes(), bfa.to_be_bytes()].concat();
            let mut want = vec![(false, 0x33u16)];
            want.extend(p.iter().map(|b| (true, *b as u16)));
            if got != want {
                return Err(format!(
                    "write_command(SetScrollArea) through transport {} (buffer {}): controller latched {:02x?}, expected {:02x?}",
                    transport, buf, got, want
                ));
            }
            Ok(())
        }
        CmdCase::SeqOnTransport { transport, buf, cmds, pixels } => {
            let mut want: Vec<(bool, u16)> = Vec::new();
            for (i, (instr, params)) in cmds.iter().enumerate() {
                want.push((false, *instr as u16));
                want.extend(params.iter().map(|b| (true, *b as u16)));
                if i + 1 < cmds.len() {
                    want.extend(pixels.iter().map(|b| (true, *b as u16)));
                }
            }
            let got = on_transport(*transport, *buf, |t| {
                for (i, (instr, params)) in cmds.iter().enumerate() {
                    t.raw(*instr, params)?;
                    if i + 1 < cmds.len() {
                        t.pixels(pixels)?;
                    }
                }
                Ok(())
            })?;
            if got != want {
                let pos = got.iter().zip(want.iter()).position(|(a, b)| a != b).unwrap_or(got.len().min(want.len()));
                return Err(format!(
                    "command sequence {:02x?} with {} pixel words in between through transport {}: word {} latched as {:02x?}, expected {:02x?}",
                    cmds.iter().map(|c| c.0).collect::<Vec<_>>(), pixels.len(), transport, pos, got.get(pos), want.get(pos)
                ));
            }
            Ok(())
        }
        CmdCase::AddressModeWord(m) => super::c14::check(m, info),
    }
}

fn asym_u16() -> BoxedStrategy<u16> {
    prop_oneof![
        2 => any::<u16>(),
        1 => Just(0x0100u16),
        1 => Just(0x0001u16),
        1 => Just(0xff00u16),
        1 => Just(0x00ffu16),
        1 => Just(0x1234u16),
        1 => Just(0u16),
        1 => Just(0xffffu16),
        1 => 0u16..600,
    ]
    .boxed()
}

fn strategy() -> BoxedStrategy<CmdCase> {
    prop_oneof![
        1 => (0u8..10).prop_map(CmdCase::Basic),
        1 => (any::<[bool; 3]>(), crate::gen::orient()).prop_map(|(b, orient)| CmdCase::AddressMode { bgr: b[0], orient, rv: b[1], rh: b[2] }),
        1 => (0u8..6, 0u8..6, any::<bool>()).prop_map(|(dpi, dbi, with_all)| CmdCase::PixelFormat { dpi, dbi, with_all }),
        3 => (asym_u16(), asym_u16()).prop_map(|(s, e)| CmdCase::Column { s, e }),
        3 => (asym_u16(), asym_u16()).prop_map(|(s, e)| CmdCase::Page { s, e }),
        3 => (asym_u16(), asym_u16(), asym_u16()).prop_map(|(tfa, vsa, bfa)| CmdCase::ScrollArea { tfa, vsa, bfa }),
        1 => asym_u16().prop_map(CmdCase::ScrollStart),
        1 => (0u8..3).prop_map(CmdCase::Tearing),
        1 => any::<bool>().prop_map(CmdCase::Invert),
        3 => (any::<u8>(), proptest::collection::vec(any::<u8>(), 0..=40)).prop_map(|(instr, params)| CmdCase::Raw { instr, params }),
        1 => (any::<u8>(), proptest::collection::vec(any::<u8>(), 41..=300)).prop_map(|(instr, params)| CmdCase::Raw { instr, params }),
        4 => (0u8..3, 1u8..=20, any::<u8>(), proptest::collection::vec(any::<u8>(), 0..=40))
            .prop_map(|(transport, buf, instr, params)| CmdCase::RawOnTransport { transport, buf, instr, params }),
        2 => (0u8..3, 1u8..=12, asym_u16(), asym_u16(), asym_u16())
            .prop_map(|(transport, buf, tfa, vsa, bfa)| CmdCase::ScrollAreaOnTransport { transport, buf, tfa, vsa, bfa }),
        3 => (0u8..3, 2u8..=12, any::<u8>(), proptest::collection::vec(any::<u8>(), 0..=6), proptest::collection::vec((any::<bool>(), any::<u8>(), proptest::collection::vec(any::<u8>(), 0..=4)), 1..=3), proptest::collection::vec(any::<u8>(), 0..=5))
            .prop_map(|(transport, buf, i0, p0, rest, pixels)| {
                // later opcodes often repeat the final byte of the command before them
                let mut cmds = vec![(i0, p0)];
                for (same, instr, params) in rest {
                    let prev = cmds.last().unwrap();
                    let last_byte = prev.1.last().copied().unwrap_or(prev.0);
                    cmds.push((if same { last_byte } else { instr }, params));
                }
                CmdCase::SeqOnTransport { transport, buf, cmds, pixels }
            }),
        2 => (any::<[bool; 3]>(), crate::gen::orient(), proptest::collection::vec(proptest::sample::select(super::c14::all_setters()), 1..=6))
            .prop_map(|(b, orient, word)| CmdCase::AddressModeWord(super::c14::ModeCase { bgr: b[0], orient, refresh_v: b[1], refresh_h: b[2], via_options: false, word })),
    ]
    .boxed()
}

fn enumerated() -> Vec<CmdCase> {
    let mut out = Vec::new();
    for i in 0..10 {
        out.push(CmdCase::Basic(i));
    }
    for bgr in [false, true] {
        for orient in Orient::ALL {
            for rv in [false, true] {
                for rh in [false, true] {
                    out.push(CmdCase::AddressMode { bgr, orient, rv, rh });
                }
            }
        }
    }
    // the address mode as the model init code builds it (From<&ModelOptions>), all 64 inputs
    for bgr in [false, true] {
        for orient in Orient::ALL {
            for rv in [false, true] {
                for rh in [false, true] {
                    out.push(CmdCase::AddressModeWord(super::c14::ModeCase { bgr, orient, refresh_v: rv, refresh_h: rh, via_options: true, word: vec![] }));
                }
            }
        }
    }
    for dpi in 0..6 {
        for dbi in 0..6 {
            out.push(CmdCase::PixelFormat { dpi, dbi, with_all: false });
        }
        out.push(CmdCase::PixelFormat { dpi, dbi: 0, with_all: true });
    }
    for v in 0..=65535u16 {
        out.push(CmdCase::ScrollStart(v));
    }
    for t in 0..3 {
        out.push(CmdCase::Tearing(t));
    }
    out.push(CmdCase::Invert(false));
    out.push(CmdCase::Invert(true));
    // every start with a few ends and vice versa
    for v in 0..=65535u16 {
        out.push(CmdCase::Column { s: v, e: v.rotate_left(5) ^ 0x5a5a });
        out.push(CmdCase::Page { s: v.rotate_left(3) ^ 0xa5a5, e: v });
    }
    for transport in 0..3u8 {
        for buf in 1..=9u8 {
            for len in 0..=18usize {
                out.push(CmdCase::RawOnTransport { transport, buf, instr: 0xB0 ^ buf, params: (0..len).map(|i| (i as u8).wrapping_mul(29) ^ 0x5c).collect() });
            }
            out.push(CmdCase::ScrollAreaOnTransport { transport, buf, tfa: 0x0102, vsa: 0x0304, bfa: 0x0506 });
        }
    }
    for transport in 0..3u8 {
        for px in [vec![], vec![0xE0u8], vec![0x2C, 0x00, 0x3C]] {
            out.push(CmdCase::SeqOnTransport { transport, buf: 4, cmds: vec![(0x2C, vec![]), (0x2C, vec![])], pixels: px.clone() });
            out.push(CmdCase::SeqOnTransport { transport, buf: 4, cmds: vec![(0xB1, vec![1, 0x2A]), (0x2A, vec![0, 1, 0, 2]), (0x02, vec![])], pixels: px.clone() });
        }
    }
    for a in super::c14::all_setters() {
        for b in super::c14::all_setters() {
            for orient in [Orient { rot: 3, mirrored: false }, Orient { rot: 1, mirrored: true }] {
                out.push(CmdCase::AddressModeWord(super::c14::ModeCase { bgr: false, orient, refresh_v: true, refresh_h: true, via_options: false, word: vec![a, b] }));
            }
        }
    }
    for instr in 0..=255u8 {
        out.push(CmdCase::Raw { instr, params: vec![] });
        out.push(CmdCase::Raw { instr, params: (0..(instr % 41)).map(|i| i.wrapping_mul(37) ^ instr).collect() });
    }
    // long parameter lists (look-up tables, gamma curves): lengths around the powers of two a staging
    // buffer might have
    for n in [31usize, 32, 33, 63, 64, 65, 127, 128, 129, 255, 256, 257, 384, 1000] {
        let params: Vec<u8> = (0..n).map(|i| (i as u8).wrapping_mul(29) ^ 0x5a).collect();
        out.push(CmdCase::Raw { instr: 0x2D, params: params.clone() });
        for transport in 0..3u8 {
            out.push(CmdCase::RawOnTransport { transport, buf: 7, instr: 0x2D, params: params.clone() });
        }
    }
    out
}

/// all 2^32 (start, end) pairs of both address commands (thorough): pure serialisation, no bus
fn sweep_pairs(workers: usize) -> (u64, Option<String>) {
    let fail = std::sync::Mutex::new(None::<String>);
    let n = std::sync::atomic::AtomicU64::new(0);
    std::thread::scope(|sc| {
        let per = 65536 / workers.max(1) as u32 + 1;
        for wi in 0..workers as u32 {
            let (fail, n) = (&fail, &n);
            sc.spawn(move || {
                let lo = wi * per;
                let hi = ((wi + 1) * per).min(65536);
                let mut cnt = 0u64;
                for s in lo..hi {
                    for e in 0..=65535u32 {
                        let (s, e) = (s as u16, e as u16);
                        let mut b1 = [0xC3u8; 16];
                        let mut b2 = [0xC3u8; 16];
                        let c1 = SetColumnAddress::new(s, e);
                        let c2 = SetPageAddress::new(s, e);
                        let n1 = c1.fill_params_buf(&mut b1);
                        let n2 = c2.fill_params_buf(&mut b2);
                        let want = [(s >> 8) as u8, s as u8, (e >> 8) as u8, e as u8];
                        cnt += 2;
                        if n1 != 4 || n2 != 4 || b1[..4] != want || b2[..4] != want || b1[4] != 0xC3 || b2[4] != 0xC3 || c1.instruction() != 0x2A || c2.instruction() != 0x2B {
                            let mut f = fail.lock().unwrap();
                            if f.is_none() {
                                *f = Some(format!("address command ({}, {}) serialises to {:02x?} / {:02x?}", s, e, &b1[..n1.min(16)], &b2[..n2.min(16)]));
                            }
                            return;
                        }
                    }
                }
                n.fetch_add(cnt, std::sync::atomic::Ordering::Relaxed);
            });
        }
    });
    (n.into_inner(), fail.into_inner().unwrap())
}

pub fn run(ctx: &Ctx) -> Report {
    let mut rep = Report::new("C18", "exploration");
    rep.assumptions = vec!["opcode table and parameter layouts written from the MIPI DCS specification (v1.x user command set)".into()];
    let mut sec = Section::new(
        &format!("enumerated[{}]", ctx.variant),
        "every public command type: all parameterless commands, all 64 address modes, all BitsPerPixel pairs, all 65536 scroll starts, all tearing/invert variants, every u16 as column start and page end, every raw instruction byte; oracle: MIPI opcode table, big-endian parameters into a poisoned 16-byte buffer (nothing beyond n touched, all n bytes written), and exactly one send_command(opcode, bytes) on the bus; write_raw / write_command also through the real SPI (staging buffers of 1..9 bytes, parameters longer than the buffer) and 8/16-bit parallel transports at pin level; SetAddressMode also after setter words",
    );
    sec.exhaustive = true;
    run_enumerated(&mut sec, enumerated(), ctx.workers, check, |_, _| "c18:serialisation".into());
    rep.sections.push(sec);
    let mut sec = Section::new(&format!("generated[{}]", ctx.variant), "commands with boundary-biased, byte-asymmetric parameters; raw slices of length 0..=40");
    run_generated(&mut sec, ctx.seed, ctx.cases(400_000, 8_000_000), ctx.workers, strategy, check, |_, _| "c18:serialisation".into());
    rep.sections.push(sec);
    if ctx.tier == Tier::Thorough {
        let mut sec = Section::new(&format!("all-address-pairs[{}]", ctx.variant), "all 2^32 (start,end) pairs for SetColumnAddress and SetPageAddress (serialisation only)");
        sec.exhaustive = true;
        let (n, f) = sweep_pairs(ctx.workers);
        sec.stats.evaluations = n;
        for i in 0..1000u64 {
            sec.stats.nontrivial.insert(i);
        }
        sec.stats.samples.push(serde_json::json!({"start": 0x0102, "end": 0x0304, "expected": [1, 2, 3, 4]}));
        if let Some(f) = f {
            sec.violations.push(Violation { reason: f, case: Value::Null, signature: "c18:pairs".into() });
        }
        rep.sections.push(sec);
    }
    rep
}

pub fn replay(_section: &str, case: &Value) -> Result<(), String> {
    check(&de::<CmdCase>(case)?, &mut CaseInfo::default())
}

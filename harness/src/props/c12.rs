//! C12 — a failing pin or bus operation is reported, stops the call, wedges nothing.

use super::{de, Ctx, Tier};
use crate::dut::{build, new_world, type_compatible, BusErr, Dut, DutErr};
use crate::gen::supported;
use crate::models::{builtin_models, ModelId, ALL_MODELS};
use crate::oracle::{compare_memory, RefImage};
use crate::rig::{Src, W};
use crate::runner::*;
use crate::types::*;
use serde::{Deserialize, Serialize};
use serde_json::Value;

#[derive(Clone, Debug, PartialEq, Eq, Hash, Serialize, Deserialize)]
pub enum FOp {
    Init,
    Draw(DrawOp),
    Orientation(Orient),
    ScrollRegion(u16, u16),
    ScrollOffset(u16),
    Tearing(u8),
    Sleep,
    Wake,
    /// sleep first (fault-free), then the faulted wake
    SleepThenWake,
    /// TestImage::draw on the display
    TestImage,
}

#[derive(Clone, Debug, PartialEq, Eq, Hash, Serialize, Deserialize)]
pub struct FaultCase {
    pub cfg: Config,
    pub op: FOp,
    /// index (within the call) of the low-level operation that fails
    pub k: u64,
    /// optionally a second failing operation index (> k): must never be reached
    pub k2: Option<u64>,
    /// the failing pin write changes the level although it reports failure
    #[serde(default)]
    pub late: bool,
}

fn run_op(d: &mut dyn Dut, op: &FOp) -> Result<(), DutErr> {
    let pulls = std::cell::Cell::new(0);
    match op {
        FOp::Init => unreachable!(),
        FOp::Draw(o) => d.run(o, &pulls),
        FOp::Orientation(o) => d.set_orientation(*o),
        FOp::ScrollRegion(a, b) => d.set_vertical_scroll_region(*a, *b),
        FOp::ScrollOffset(o) => d.set_vertical_scroll_offset(*o),
        FOp::Tearing(t) => d.set_tearing_effect(*t),
        FOp::Sleep => d.sleep(),
        FOp::Wake | FOp::SleepThenWake => d.wake(),
        FOp::TestImage => d.draw_test_image(),
    }
}

/// expected error path for a failing source on a transport
fn expected_path(t: Transport, src: Src, init: bool) -> Vec<&'static str> {
    let mut p: Vec<&'static str> = Vec::new();
    if src == Src::Rst {
        return vec!["ResetPin"];
    }
    if init {
        p.push("Interface");
    }
    match (t, src) {
        (Transport::Spi { .. }, Src::Spi) => p.push("Spi"),
        (Transport::Spi { .. }, Src::Dc) => p.push("Dc"),
        (Transport::Par8 | Transport::Par16, Src::Data(_)) => p.push("Bus"),
        (Transport::Par8 | Transport::Par16, Src::Dc) => p.push("Dc"),
        (Transport::Par8 | Transport::Par16, Src::Wr) => p.push("Wr"),
        (Transport::Rec8 | Transport::Rec16, Src::Iface) => {}
        _ => p.push("?"),
    }
    p
}

/// number of low-level operations the fault-free call performs
pub fn dry_run(cfg: &Config, op: &FOp) -> Result<u64, String> {
    let w = new_world(cfg);
    match op {
        FOp::Init => {
            build(cfg, &w).map_err(|e| format!("fault-free init failed: {:?}", e))?;
            let n = w.borrow().ops;
            Ok(n)
        }
        _ => {
            let mut d = build(cfg, &w).map_err(|e| format!("fault-free init failed: {:?}", e))?;
            if matches!(op, FOp::SleepThenWake) {
                d.sleep().map_err(|e| format!("{:?}", e))?;
            }
            let n0 = w.borrow().ops;
            run_op(&mut *d, op).map_err(|e| format!("fault-free call failed: {:?}", e))?;
            let n = w.borrow().ops - n0;
            Ok(n)
        }
    }
}

fn check_err(cfg: &Config, w: &W, r: Result<(), DutErr>, k_abs: u64, init: bool, what: &str) -> Result<(), String> {
    let wb = w.borrow();
    match r {
        // the call ended before reaching the armed operation (it needs fewer operations than the case
        // assumed, e.g. a saved case replayed on a driver that sends less): nothing failed, nothing to judge
        Ok(()) if wb.ops <= k_abs => Ok(()),
        Ok(()) => Err(format!("{}: low-level operation #{} failed but the call returned Ok (error swallowed)", what, k_abs)),
        Err(DutErr::Panic(m)) => Err(format!("{}: panicked after a failed operation: {}", what, m)),
        Err(DutErr::Bus(BusErr { path, src, budget })) => {
            if budget {
                return Err("HARNESS: budget fault in fault enumeration".into());
            }
            let want = expected_path(cfg.transport, src, init);
            if path != want {
                return Err(format!("{}: failure of {:?} was reported as {:?}, expected variant path {:?}", what, src, path, want));
            }
            if wb.ops != k_abs + 1 {
                return Err(format!(
                    "{}: operation #{} ({:?}) failed, yet {} further pin/bus operations were issued in the same call",
                    what,
                    k_abs,
                    src,
                    wb.ops - (k_abs + 1)
                ));
            }
            Ok(())
        }
        Err(e) => Err(format!("{}: a bus failure was reported as {:?}", what, e)),
    }
}

pub fn check(c: &FaultCase, info: &mut CaseInfo) -> Result<(), String> {
    let cfg = &c.cfg;
    info.nontrivial = true;
    info.label(cfg.transport.label());
    let w = new_world(cfg);
    w.borrow_mut().late_faults = c.late;
    if c.late {
        info.label("late-fault");
    }
    if let FOp::Init = c.op {
        info.label("init");
        {
            let mut wb = w.borrow_mut();
            wb.fail_at = vec![c.k];
            if let Some(k2) = c.k2 {
                wb.fail_at.push(k2);
            }
        }
        let r = build(cfg, &w).map(|_| ());
        return check_err(cfg, &w, r, c.k, true, "init");
    }
    let mut d = build(cfg, &w).map_err(|e| format!("fault-free init failed: {:?}", e))?;
    if matches!(c.op, FOp::SleepThenWake) {
        d.sleep().map_err(|e| format!("{:?}", e))?;
    }
    if c.k % 2 == 1 && !matches!(c.op, FOp::Sleep | FOp::Wake | FOp::SleepThenWake) {
        // a solid fill in the colour of the follow-up clear before the fault: state a transport keeps
        // about "what is staged" must not survive the torn call
        d.clear(colour_of(101, 0, d.bits())).map_err(|e| format!("fault-free clear failed: {:?}", e))?;
        info.label("pre-filled-with-follow-up-colour");
    }
    let sleeping_before = d.is_sleeping();
    let base = w.borrow().ops;
    {
        let mut wb = w.borrow_mut();
        wb.fail_at = vec![base + c.k];
        if let Some(k2) = c.k2 {
            wb.fail_at.push(base + k2);
        }
    }
    let r = run_op(&mut *d, &c.op);
    let what = format!("{:?} with operation {} of the call failing", c.op, c.k);
    if r.is_ok() && w.borrow().ops <= base + c.k {
        // the armed operation was never reached (the call needs fewer operations than this case assumes)
        info.nontrivial = false;
        info.label("fault-not-reached");
        return Ok(());
    }
    check_err(cfg, &w, r, base + c.k, false, &what)?;
    if matches!(c.op, FOp::Sleep | FOp::Wake | FOp::SleepThenWake) {
        info.label("sleep/wake");
        if d.is_sleeping() != sleeping_before {
            return Err(format!("{}: is_sleeping() changed from {} to {} although the call failed", what, sleeping_before, d.is_sleeping()));
        }
    }
    // fault cleared: the same display object still draws correctly
    {
        let mut wb = w.borrow_mut();
        wb.fail_at.clear();
        wb.panel.take_errors();
        wb.decode_errors.clear();
        wb.panel.take_trace();
        wb.panel.take_bursts();
    }
    if d.is_sleeping() {
        d.wake().map_err(|e| format!("{}: wake after the fault cleared failed: {:?}", what, e))?;
    }
    let table = crate::oracle::derive_orientation_bits();
    let enc = |o: Orient| crate::oracle::madctl_expected(&table, o, cfg.madctl_bgr(), cfg.refresh_v, cfg.refresh_h);
    let orient = match &c.op {
        FOp::Orientation(o) => {
            let reported = d.orientation();
            let in_controller = w.borrow().panel.madctl;
            if in_controller == enc(reported) {
                // driver and controller agree on an orientation: drawing must simply work, without a retry
                info.label("failed-set_orientation:consistent");
                reported
            } else if in_controller == enc(cfg.orient) {
                // nothing reached the controller, yet the driver's own view changed
                return Err(format!(
                    "{}: the call failed and the controller still holds the address mode of {:?}, but the display now reports {:?}",
                    what, cfg.orient, reported
                ));
            } else {
                // half-delivered change (which state that leaves is not fixed by the property): re-issue it
                d.set_orientation(*o).map_err(|e| format!("{}: set_orientation after the fault cleared failed: {:?}", what, e))?;
                *o
            }
        }
        _ => cfg.orient,
    };
    // in half of the cases: a retry of the orientation change must take effect and keep the colour / refresh bits
    if let FOp::Orientation(o) = &c.op {
        if c.k % 2 == 0 {
            d.set_orientation(*o).map_err(|e| format!("{}: retry of set_orientation failed: {:?}", what, e))?;
            let m = w.borrow().panel.madctl;
            if m != enc(*o) {
                return Err(format!(
                    "{}: after a retried set_orientation({:?}) the controller holds address mode {:#010b}, expected {:#010b}",
                    what, o, m, enc(*o)
                ));
            }
            return follow_up(c, cfg, &mut *d, &w, *o, &what);
        }
    }
    follow_up(c, cfg, &mut *d, &w, orient, &what)
}

fn follow_up(_c: &FaultCase, cfg: &Config, d: &mut dyn Dut, w: &W, orient: Orient, what: &str) -> Result<(), String> {
    let (lw, lh) = cfg.logical_size(orient);
    let mut img = RefImage::new(lw, lh);
    let bits = d.bits();
    let pulls = std::cell::Cell::new(0);
    let follow = [
        DrawOp::Clear { seed: 101 },
        DrawOp::SetPixel { x: (lw - 1) as u16, y: 0, seed: 102 },
        DrawOp::FillSolid { rect: Rect { x: 0, y: (lh - 1) as i32, w: lw.min(3), h: 1 }, seed: 103 },
        DrawOp::SetPixel { x: 0, y: (lh - 1) as u16, seed: 104 },
    ];
    // everything written before (including the torn call) is overwritten by the clear: compare the window only
    let before = w.borrow().panel.mem.written();
    for op in &follow {
        d.run(op, &pulls).map_err(|e| format!("{}: {} after the fault cleared failed: {:?}", what, crate::exec::op_name(op), e))?;
        img.apply(op, bits);
    }
    {
        let wb = w.borrow();
        if let Some(e) = wb.panel.errors.first() {
            return Err(format!("{}: malformed traffic after the fault cleared: {}", what, e));
        }
        if let Some(e) = wb.decode_errors.first() {
            return Err(format!("{}: bus decode error after the fault cleared: {}", what, e));
        }
        // cells written by the torn call outside the final window would survive the clear; they are the torn call's
        // business (not judged here), so only the window is compared
        let mut cfg2 = cfg.clone();
        cfg2.orient = orient;
        for (x, y, cexp) in img.points() {
            let (px, py) = crate::oracle::to_phys(&cfg2, orient, x, y);
            let got = wb.panel.mem.get(px, py);
            if got != cexp {
                return Err(format!(
                    "{}: after the fault cleared, clear + drawing left cell ({},{}) = {:#x}, expected {:#x} (display wedged)",
                    what, px, py, got, cexp
                ));
            }
        }
        let _ = (before, compare_memory);
    }
    Ok(())
}

fn small_cfg(model: ModelId, t: Transport, reset_pin: bool) -> Config {
    let mut cfg = Config::full(model, t);
    let (fw, fh) = model.fb();
    cfg.w = fw.min(5);
    cfg.h = fh.min(4);
    cfg.ox = (fw - cfg.w).min(3);
    cfg.oy = (fh - cfg.h).min(2);
    cfg.orient = Orient { rot: 1, mirrored: false };
    cfg.reset_pin = reset_pin;
    // non-default colour / refresh bits: a driver that loses its cached address mode in a failed call shows it
    cfg.bgr = true;
    cfg.refresh_v = true;
    cfg
}

pub fn post_init_ops(cfg: &Config) -> Vec<FOp> {
    let (lw, lh) = cfg.logical_size(cfg.orient);
    let (lwi, lhi) = (lw as i32, lh as i32);
    vec![
        FOp::Draw(DrawOp::SetPixel { x: (lw - 1) as u16, y: (lh - 1) as u16, seed: 1 }),
        FOp::Draw(DrawOp::DrawIter { pts: vec![(0, 0), (1.min(lwi - 1), 0), (lwi - 1, lhi - 1), (0, 0), (lwi, 0)], seed: 2 }),
        FOp::Draw(DrawOp::FillContiguous { rect: Rect { x: -1, y: 0, w: lw + 1, h: lh.min(2) }, len: StreamLen::Infinite, seed: 3 }),
        FOp::Draw(DrawOp::FillSolid { rect: Rect { x: 0, y: 0, w: lw, h: lh.min(2) }, seed: 4 }),
        FOp::Draw(DrawOp::FillSolid { rect: Rect { x: 0, y: 0, w: 2.min(lw), h: 1 }, seed: 0x0 }),
        // black and a uniform-byte colour: transports have strobe-only / single-byte paths for these
        FOp::Draw(DrawOp::FillSolid { rect: Rect { x: 0, y: 0, w: lw, h: lh.min(3) }, seed: UNIFORM_SEED_BASE }),
        FOp::Draw(DrawOp::FillSolid { rect: Rect { x: 1.min(lw as i32 - 1), y: 0, w: lw, h: 2 }, seed: UNIFORM_SEED_BASE + 3 }),
        FOp::Draw(DrawOp::Clear { seed: 5 }),
        FOp::Orientation(Orient { rot: 2, mirrored: true }),
        FOp::ScrollRegion(3, 4),
        FOp::ScrollOffset(0x1234),
        FOp::Tearing(0),
        FOp::Tearing(2),
        FOp::Sleep,
        FOp::Wake,
        FOp::SleepThenWake,
    ]
}

/// enumerate (config, op, every k)
pub fn enumerate(models: &[ModelId], transports: &[Transport], with_init: bool, with_ops: bool, second_fault: bool) -> Result<Vec<FaultCase>, String> {
    let mut out = Vec::new();
    for &model in models {
        for &t in transports {
            if !type_compatible(model, t) || !supported(model, t.kind()) {
                continue;
            }
            for reset_pin in [false, true] {
                let cfg = small_cfg(model, t, reset_pin);
                if with_init {
                    let n = dry_run(&cfg, &FOp::Init)?;
                    for k in 0..n {
                        out.push(FaultCase { cfg: cfg.clone(), op: FOp::Init, k, k2: if second_fault && k + 1 < n { Some(k + 1 + (k % 3)) } else { None }, late: false });
                    }
                }
                if with_ops && !reset_pin {
                    for op in post_init_ops(&cfg) {
                        let n = dry_run(&cfg, &op)?;
                        let ks: Vec<u64> = if n <= 5000 { (0..n).collect() } else { (0..200).chain((n - 200)..n).chain((200..n - 200).step_by(((n - 400) / 600).max(1) as usize)).collect() };
                        for k in ks {
                            out.push(FaultCase { cfg: cfg.clone(), op: op.clone(), k, k2: if second_fault && k + 2 < n { Some(k + 2) } else { None }, late: false });
                            if t.pin_level() {
                                out.push(FaultCase { cfg: cfg.clone(), op: op.clone(), k, k2: None, late: true });
                            }
                        }
                    }
                }
            }
        }
    }
    Ok(out)
}

// ---- a failed init must not wedge the *interface*: a second init over the same interface object
// (handed to the builder as `&mut interface`) has to bring the controller up correctly

#[derive(Clone, Debug, PartialEq, Eq, Hash, Serialize, Deserialize)]
pub struct ReinitCase {
    pub cfg: Config,
    pub k: u64,
    #[serde(default)]
    pub late: bool,
}

pub struct InitOn<'a, DI> {
    pub di: &'a mut DI,
    pub cfg: &'a Config,
    pub w: &'a W,
    /// what the display does after a successful init, before it is dropped (0 = nothing): see `use_display`
    pub usage: u8,
}

/// a little drawing between two inits over one interface object; every variant ends with a different
/// kind of transfer (nothing, an empty pixel stream, one pixel, a solid fill, a command)
fn use_display<DI, M, RST>(d: &mut mipidsi::Display<DI, M, RST>, usage: u8) -> Result<(), String>
where
    DI: mipidsi::interface::Interface,
    DI::Error: core::fmt::Debug,
    M: mipidsi::models::Model,
    M::ColorFormat: mipidsi::interface::InterfacePixelFormat<DI::Word> + embedded_graphics_core::pixelcolor::RgbColor,
    RST: embedded_hal::digital::OutputPin,
{
    use embedded_graphics_core::pixelcolor::RgbColor;
    let e = |e: DI::Error| format!("{:?}", e);
    match usage {
        0 => Ok(()),
        1 => d.set_pixels(0, 0, 0, 0, core::iter::empty()).map_err(e),
        2 => d.set_pixel(0, 0, M::ColorFormat::GREEN).map_err(e),
        3 => {
            d.set_pixel(0, 0, M::ColorFormat::WHITE).map_err(e)?;
            d.set_pixels(0, 0, 0, 0, core::iter::empty()).map_err(e)
        }
        4 => {
            use embedded_graphics_core::draw_target::DrawTarget;
            d.clear(M::ColorFormat::BLACK).map_err(e)
        }
        _ => {
            d.set_pixels(0, 0, 0, 0, core::iter::empty()).map_err(e)?;
            d.set_vertical_scroll_offset(3).map_err(e)
        }
    }
}

fn init_on<DI, M>(di: &mut DI, m: M, cfg: &Config, w: &W, usage: u8) -> Result<(), String>
where
    DI: mipidsi::interface::Interface,
    DI::Error: core::fmt::Debug,
    M: mipidsi::models::Model,
    M::ColorFormat: mipidsi::interface::InterfacePixelFormat<DI::Word> + embedded_graphics_core::pixelcolor::RgbColor,
{
    use mipidsi::options::*;
    let mut clk = crate::rig::Clock { w: w.clone() };
    let b = mipidsi::Builder::new(m, di)
        .display_size(cfg.w, cfg.h)
        .display_offset(cfg.ox, cfg.oy)
        .orientation(cfg.orient.to_mipidsi())
        .color_order(if cfg.bgr { ColorOrder::Bgr } else { ColorOrder::Rgb })
        .invert_colors(if cfg.invert { ColorInversion::Inverted } else { ColorInversion::Normal })
        .refresh_order(RefreshOrder::new(
            if cfg.refresh_v { VerticalRefreshOrder::BottomToTop } else { VerticalRefreshOrder::TopToBottom },
            if cfg.refresh_h { HorizontalRefreshOrder::RightToLeft } else { HorizontalRefreshOrder::LeftToRight },
        ));
    let r = std::panic::catch_unwind(std::panic::AssertUnwindSafe(|| {
        if cfg.reset_pin {
            let mut d = b.reset_pin(crate::rig::pin(w, Src::Rst)).init(&mut clk).map_err(|e| format!("{:?}", e))?;
            use_display(&mut d, usage)
        } else {
            let mut d = b.init(&mut clk).map_err(|e| format!("{:?}", e))?;
            use_display(&mut d, usage)
        }
    }));
    w.borrow_mut().flush();
    match r {
        Ok(r) => r,
        Err(_) => Err("panicked".into()),
    }
}

impl<'a, DI> crate::models::ModelVisitor for InitOn<'a, DI>
where
    DI: mipidsi::interface::Interface<Word = u8>,
    DI::Error: core::fmt::Debug,
{
    type Out = Result<(), String>;
    fn visit<M>(self, _id: ModelId, m: M) -> Self::Out
    where
        M: mipidsi::models::Model + 'static,
        M::ColorFormat: crate::models::HColor + mipidsi::interface::InterfacePixelFormat<u8>,
    {
        init_on(self.di, m, self.cfg, self.w, self.usage)
    }
}

impl<'a, DI> crate::models::Model565Visitor for InitOn<'a, DI>
where
    DI: mipidsi::interface::Interface<Word = u16>,
    DI::Error: core::fmt::Debug,
{
    type Out = Result<(), String>;
    fn visit<M>(self, _id: ModelId, m: M) -> Self::Out
    where
        M: mipidsi::models::Model<ColorFormat = embedded_graphics_core::pixelcolor::Rgb565> + 'static,
    {
        init_on(self.di, m, self.cfg, self.w, self.usage)
    }
}

pub fn check_reinit(c: &ReinitCase, info: &mut CaseInfo) -> Result<(), String> {
    use crate::models::{dispatch_model, dispatch_model565};
    use crate::rig::{pin, pins16, pins8, SpiDev};
    use mipidsi::interface::{Generic16BitBus, Generic8BitBus, ParallelInterface, SpiInterface};
    crate::dut::install_panic_hook();
    let cfg = &c.cfg;
    let w = new_world(cfg);
    w.borrow_mut().late_faults = c.late;
    w.borrow_mut().latch_on = true;
    info.nontrivial = true;
    info.label(cfg.transport.label());
    // two inits over one interface object
    let run = |first: bool, w: &W, f: &mut dyn FnMut() -> Result<(), String>| -> Result<(), String> {
        if first {
            w.borrow_mut().fail_at = vec![c.k];
        } else {
            w.borrow_mut().begin_epoch();
        }
        f()
    };
    let (r1, r2) = match cfg.transport {
        Transport::Spi { buf } => {
            let mut buffer = vec![0xA5u8; buf as usize];
            let mut di = SpiInterface::new(SpiDev { w: w.clone() }, pin(&w, Src::Dc), &mut buffer[..]);
            let r1 = run(true, &w, &mut || dispatch_model(cfg.model, InitOn { di: &mut di, cfg, w: &w, usage: 0 }));
            let r2 = run(false, &w, &mut || dispatch_model(cfg.model, InitOn { di: &mut di, cfg, w: &w, usage: 0 }));
            (r1, r2)
        }
        Transport::Par8 => {
            let mut di = ParallelInterface::new(Generic8BitBus::new(pins8(&w)), pin(&w, Src::Dc), pin(&w, Src::Wr));
            let r1 = run(true, &w, &mut || dispatch_model(cfg.model, InitOn { di: &mut di, cfg, w: &w, usage: 0 }));
            let r2 = run(false, &w, &mut || dispatch_model(cfg.model, InitOn { di: &mut di, cfg, w: &w, usage: 0 }));
            (r1, r2)
        }
        Transport::Par16 => {
            let mut di = ParallelInterface::new(Generic16BitBus::new(pins16(&w)), pin(&w, Src::Dc), pin(&w, Src::Wr));
            let r1 = run(true, &w, &mut || dispatch_model565(cfg.model, InitOn { di: &mut di, cfg, w: &w, usage: 0 }).unwrap_or(Err("HARNESS: not a 565 model".into())));
            let r2 = run(false, &w, &mut || dispatch_model565(cfg.model, InitOn { di: &mut di, cfg, w: &w, usage: 0 }).unwrap_or(Err("HARNESS: not a 565 model".into())));
            (r1, r2)
        }
        _ => return Err("HARNESS: re-init needs a pin-level transport".into()),
    };
    if r1.is_ok() {
        return Err(format!("init with low-level operation {} failing returned Ok", c.k));
    }
    if let Err(e) = r2 {
        return Err(format!("after an init that failed at operation {}, a second init over the same interface failed: {}", c.k, e));
    }
    let wb = w.borrow();
    let trace: Vec<crate::panel::Tr> = wb.panel.trace.clone();
    super::c11::judge_panel(&wb, cfg).map_err(|e| format!("second init over the same interface after a failure at operation {}: {}", c.k, e))?;
    super::c11::judge_reset(&wb, cfg, &trace).map_err(|e| format!("second init over the same interface after a failure at operation {}: {}", c.k, e))?;
    Ok(())
}

/// Two fault-free inits over one interface object (handed to the builder as `&mut interface`), with a
/// little drawing after the first one. Returns the trace of the second init; the world holds its
/// observations (reset log, first bus word, panel state).
pub fn reinit_after_use(cfg: &Config, w: &W, usage: u8) -> Result<Vec<crate::panel::Tr>, String> {
    use crate::models::{dispatch_model, dispatch_model565};
    use crate::rig::{pin, pins16, pins8, SpiDev};
    use mipidsi::interface::{Generic16BitBus, Generic8BitBus, ParallelInterface, SpiInterface};
    w.borrow_mut().latch_on = true;
    let second = |w: &W| w.borrow_mut().begin_epoch();
    let (r1, r2) = match cfg.transport {
        Transport::Spi { buf } => {
            let mut buffer = vec![0xA5u8; buf as usize];
            let mut di = SpiInterface::new(SpiDev { w: w.clone() }, pin(w, Src::Dc), &mut buffer[..]);
            let r1 = dispatch_model(cfg.model, InitOn { di: &mut di, cfg, w, usage });
            second(w);
            let r2 = dispatch_model(cfg.model, InitOn { di: &mut di, cfg, w, usage: 0 });
            (r1, r2)
        }
        Transport::Par8 => {
            let mut di = ParallelInterface::new(Generic8BitBus::new(pins8(w)), pin(w, Src::Dc), pin(w, Src::Wr));
            let r1 = dispatch_model(cfg.model, InitOn { di: &mut di, cfg, w, usage });
            second(w);
            let r2 = dispatch_model(cfg.model, InitOn { di: &mut di, cfg, w, usage: 0 });
            (r1, r2)
        }
        Transport::Par16 => {
            let mut di = ParallelInterface::new(Generic16BitBus::new(pins16(w)), pin(w, Src::Dc), pin(w, Src::Wr));
            let r1 = dispatch_model565(cfg.model, InitOn { di: &mut di, cfg, w, usage }).unwrap_or(Err("HARNESS: not a 565 model".into()));
            second(w);
            let r2 = dispatch_model565(cfg.model, InitOn { di: &mut di, cfg, w, usage: 0 }).unwrap_or(Err("HARNESS: not a 565 model".into()));
            (r1, r2)
        }
        _ => return Err("HARNESS: re-init needs a pin-level transport".into()),
    };
    r1.map_err(|e| format!("first init / use of the display failed: {}", e))?;
    r2.map_err(|e| format!("second init over the same interface failed: {}", e))?;
    let wb = w.borrow();
    Ok(wb.panel.trace.clone())
}

fn reinit_cases(models: &[ModelId], transports: &[Transport]) -> Result<Vec<ReinitCase>, String> {
    let mut out = Vec::new();
    for &model in models {
        for &t in transports {
            if !t.pin_level() || !type_compatible(model, t) || !supported(model, t.kind()) {
                continue;
            }
            for reset_pin in [false, true] {
                let cfg = small_cfg(model, t, reset_pin);
                let n = dry_run(&cfg, &FOp::Init)?;
                for k in 0..n {
                    out.push(ReinitCase { cfg: cfg.clone(), k, late: false });
                    if k % 3 == 0 {
                        out.push(ReinitCase { cfg: cfg.clone(), k, late: true });
                    }
                }
            }
        }
    }
    Ok(out)
}

fn test_image_cases(models: &[ModelId]) -> Result<Vec<FaultCase>, String> {
    let mut out = Vec::new();
    for &model in models {
        for t in [Transport::Spi { buf: 64 }, Transport::Rec8] {
            if !type_compatible(model, t) || !supported(model, t.kind()) {
                continue;
            }
            let mut cfg = Config::full(model, t);
            let (fw, fh) = model.fb();
            if fw < 34 || fh < 36 {
                continue;
            }
            cfg.w = 34;
            cfg.h = 36;
            cfg.ox = 3;
            cfg.oy = 1;
            cfg.orient = Orient { rot: 3, mirrored: true };
            let n = dry_run(&cfg, &FOp::TestImage)?;
            for k in 0..n {
                out.push(FaultCase { cfg: cfg.clone(), op: FOp::TestImage, k, k2: None, late: false });
            }
        }
    }
    Ok(out)
}

fn sig(c: &FaultCase, reason: &str) -> String {
    let kind = if reason.contains("swallowed") {
        "swallowed"
    } else if reason.contains("reported as") {
        "wrong-variant"
    } else if reason.contains("further pin/bus") {
        "continued-after-failure"
    } else if reason.contains("is_sleeping") {
        "sleep-flag"
    } else if reason.contains("wedged") || reason.contains("after the fault cleared") {
        "wedged"
    } else if reason.contains("panicked") {
        "panic"
    } else {
        "other"
    };
    let op = match &c.op {
        FOp::Init => "init".to_string(),
        FOp::Draw(o) => crate::exec::op_name(o).to_string(),
        o => format!("{:?}", o).split('(').next().unwrap_or("op").to_string(),
    };
    format!("c12:{}:{}:{}", c.cfg.transport.label(), op, kind)
}

pub fn run(ctx: &Ctx) -> Report {
    let mut rep = Report::new("C12", "fault_enumeration");
    rep.assumptions = vec![
        "a fault is a single pin write or SPI transaction (or, on the recording interface, one Interface call) returning Err; a failed pin write either leaves the level unchanged or (late fault, pin-level transports) changes it although it reports failure".into(),
        "after a failed set_orientation the follow-up re-issues set_orientation before drawing (which orientation a half-sent change leaves is not fixed by the property)".into(),
        "init consumes the builder, so 'the same object still works' applies to post-init operations".into(),
    ];
    let thorough = ctx.tier == Tier::Thorough;
    let pin_transports: Vec<Transport> = if thorough {
        vec![Transport::Spi { buf: 7 }, Transport::Spi { buf: 64 }, Transport::Par8, Transport::Par16, Transport::Rec8, Transport::Rec16]
    } else {
        vec![Transport::Spi { buf: 7 }, Transport::Par8, Transport::Par16, Transport::Rec8]
    };
    let mut sec = Section::new(
        &format!("init-faults[{}]", ctx.variant),
        "initialisation of every built-in model on every supported transport, with and without reset pin: a dry run counts the n low-level operations (pin writes, SPI transactions), then every k in 0..n is failed in turn; oracle: Err whose variant names the failing source (SPI vs D/C; bus vs D/C vs WR; interface vs reset pin), no panic, operation counter stops at k+1; distinct = (model, transport, reset pin, k)",
    );
    sec.exhaustive = true;
    match enumerate(&builtin_models(), &pin_transports, true, false, false) {
        Ok(cases) => run_enumerated(&mut sec, cases, ctx.workers, check, sig),
        Err(e) => sec.violations.push(Violation { reason: e, case: Value::Null, signature: "c12:dry-run-failed".into() }),
    }
    rep.sections.push(sec);

    let mut sec = Section::new(
        &format!("operation-faults[{}]", ctx.variant),
        "set_pixel, draw_iter, fill_contiguous, fill_solid (also with an all-equal-byte colour), clear, set_orientation, scroll region/offset, tearing effect, sleep, wake on a 5x4 window (rotated 90 degrees, offset (3,2)), every k in 0..n failed in turn; additionally: is_sleeping() unchanged by a failed sleep/wake, and with the fault cleared, clear + drawing on the same object gives the reference picture",
    );
    sec.exhaustive = true;
    let op_models: Vec<ModelId> = if thorough { ALL_MODELS.iter().copied().filter(|m| m.fb().0 >= 5 && m.fb().1 >= 4).collect() } else { vec![ModelId::ST7789, ModelId::ILI9341Rgb666, ModelId::ILI9486Rgb565, ModelId::GC9A01, ModelId::E7x5, ModelId::EHuge] };
    let op_transports = vec![Transport::Spi { buf: 7 }, Transport::Spi { buf: 64 }, Transport::Par8, Transport::Par16, Transport::Rec8, Transport::Rec16];
    match enumerate(&op_models, &op_transports, false, true, false) {
        Ok(cases) => run_enumerated(&mut sec, cases, ctx.workers, check, sig),
        Err(e) => sec.violations.push(Violation { reason: e, case: Value::Null, signature: "c12:dry-run-failed".into() }),
    }
    rep.sections.push(sec);

    let mut sec = Section::new(
        &format!("test-image-faults[{}]", ctx.variant),
        "TestImage::draw on a 34x36 window (rotated 270 degrees, mirrored) through SPI and the recording interface, every low-level operation k failed in turn: error reported, nothing further issued, and the display still draws afterwards",
    );
    sec.exhaustive = true;
    match test_image_cases(&[ModelId::ST7789, ModelId::ILI9341Rgb666]) {
        Ok(cases) => run_enumerated(&mut sec, cases, ctx.workers, check, sig),
        Err(e) => sec.violations.push(Violation { reason: e, case: Value::Null, signature: "c12:dry-run-failed".into() }),
    }
    rep.sections.push(sec);

    let mut sec = Section::new(
        &format!("re-init[{}]", ctx.variant),
        "the interface is handed to the builder as `&mut interface`; init fails at low-level operation k (every k), then a second init runs over the same interface object: it must succeed, leave the controller programmed as the options say (C11 oracle) and start with the reset (C17 oracle); SPI, 8-bit and 16-bit parallel at pin level, with and without reset pin, also with late faults",
    );
    sec.exhaustive = true;
    let re_models: Vec<ModelId> = if thorough { builtin_models() } else { vec![ModelId::ST7789, ModelId::ILI9341Rgb666, ModelId::GC9A01, ModelId::ILI9486Rgb565, ModelId::RM67162] };
    match reinit_cases(&re_models, &[Transport::Spi { buf: 7 }, Transport::Par8, Transport::Par16]) {
        Ok(cases) => run_enumerated(&mut sec, cases, ctx.workers, check_reinit, |c, _| format!("c12:reinit:{}", c.cfg.transport.label())),
        Err(e) => sec.violations.push(Violation { reason: e, case: Value::Null, signature: "c12:dry-run-failed".into() }),
    }
    rep.sections.push(sec);

    if thorough {
        let mut sec = Section::new(&format!("two-fault-plans[{}]", ctx.variant), "as above with a second failing operation armed behind the first: it must never be reached");
        match enumerate(&[ModelId::ST7789, ModelId::ILI9488Rgb666], &op_transports, true, true, true) {
            Ok(cases) => run_enumerated(&mut sec, cases, ctx.workers, check, sig),
            Err(e) => sec.violations.push(Violation { reason: e, case: Value::Null, signature: "c12:dry-run-failed".into() }),
        }
        rep.sections.push(sec);
    }
    rep
}

pub fn replay(section: &str, case: &Value) -> Result<(), String> {
    if section.starts_with("re-init") {
        return check_reinit(&de::<ReinitCase>(case)?, &mut CaseInfo::default());
    }
    check(&de::<FaultCase>(case)?, &mut CaseInfo::default())
}

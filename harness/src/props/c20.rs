//! C20 — batching and buffering actually reduce bus overhead, never below correctness.

use super::{c01, c02, c03, de, Ctx};
use crate::exec::{op_name, window_setups, ProgCase, Session};
use crate::gen;
use crate::runner::*;
use crate::types::*;
use proptest::prelude::*;
use serde_json::Value;

/// Σ over maximal left-to-right runs of ceil(len / cap), over the in-bounds pixels of a stream
fn runs_split(pts: &[(i32, i32)], lw: u32, lh: u32, cap: u64) -> (u64, u64, u64, u64) {
    let inside = |x: i32, y: i32| x >= 0 && y >= 0 && (x as u32) < lw && (y as u32) < lh;
    let mut bound = 0u64;
    let mut runs = 0u64;
    let mut longest = 0u64;
    let mut inb = 0u64;
    let mut cur = 0u64;
    let mut prev: Option<(i32, i32)> = None;
    let mut close = |cur: &mut u64, bound: &mut u64, runs: &mut u64, longest: &mut u64| {
        if *cur > 0 {
            *bound += (*cur + cap - 1) / cap;
            *runs += 1;
            *longest = (*longest).max(*cur);
            *cur = 0;
        }
    };
    for &(x, y) in pts {
        if !inside(x, y) {
            // an out-of-bounds pixel is discarded; whether it splits a run is not fixed by the
            // property, so (soundly) it is treated as splitting
            close(&mut cur, &mut bound, &mut runs, &mut longest);
            prev = None;
            continue;
        }
        inb += 1;
        match prev {
            Some((px, py)) if py == y && x == px + 1 => cur += 1,
            _ => {
                close(&mut cur, &mut bound, &mut runs, &mut longest);
                cur = 1;
            }
        }
        prev = Some((x, y));
    }
    close(&mut cur, &mut bound, &mut runs, &mut longest);
    (bound, runs, longest, inb)
}

pub fn check_with(case: &ProgCase, info: &mut CaseInfo, cap: u64, batch: bool) -> Result<(), String> {
    let cfg = &case.cfg;
    let (lw, lh) = cfg.logical_size(cfg.orient);
    let mut s = Session::start(cfg)?;
    let bytes_pp = (s.bits as u64 + 7) / 8;
    for op in &case.ops {
        let Ok(obs) = s.call(op) else {
            info.label("call-failed(ignored here)");
            return Ok(());
        };
        let setups = window_setups(&obs);
        match op {
            DrawOp::FillSolid { .. } | DrawOp::FillContiguous { .. } | DrawOp::Clear { .. } => {
                let (vis, _) = c02::in_out(op, lw, lh);
                if vis > 0 && setups != 1 {
                    return Err(format!("{} with a non-empty intersection used {} address-window set-ups, expected exactly 1", op_name(op), setups));
                }
                if vis == 0 && setups > 1 {
                    return Err(format!("{} with an empty intersection used {} address-window set-ups", op_name(op), setups));
                }
                info.label("fill");
            }
            DrawOp::DrawIter { pts, .. } => {
                let (bound, runs, longest, inb) = runs_split(pts, lw, lh, cap.max(1));
                if setups > inb {
                    return Err(format!("draw_iter of {} in-bounds pixels used {} window set-ups (more than one per pixel)", inb, setups));
                }
                if batch && setups > bound {
                    return Err(format!(
                        "draw_iter used {} window set-ups for {} left-to-right runs (longest {}), more than runs split at the measured capacity {} allow ({})",
                        setups, runs, longest, cap, bound
                    ));
                }
                if longest > cap && runs >= 2 {
                    info.nontrivial = true;
                }
                info.label("draw_iter");
            }
            _ => {}
        }
        // SPI: a burst of b bytes in at most floor(b / usable) + 1 transactions (transactions attributed to
        // the burst from the raw SPI log; what a command needs is not bounded by this property)
        if let Transport::Spi { buf } = cfg.transport {
            let usable = (buf as u64 / bytes_pp) * bytes_pp;
            if usable > 0 {
                for (bytes, tx) in &obs.spi_bursts {
                    let allowed = bytes / usable + 1;
                    if *tx > allowed {
                        return Err(format!(
                            "{}: a pixel burst of {} bytes took {} SPI transactions (usable buffer {} of {} bytes), bound is floor(b/usable)+1 = {}",
                            op_name(op), bytes, tx, usable, buf, allowed
                        ));
                    }
                }
                info.label("spi-bound-checked");
            }
        }
    }
    Ok(())
}

pub fn check(case: &ProgCase, info: &mut CaseInfo) -> Result<(), String> {
    check_with(case, info, c03::cap(case.cfg.model.bits()), cfg!(feature = "batch"))
}

/// fills of more than 2^26 pixels on the 65535x65535 external models
pub fn giant_cases() -> Vec<ProgCase> {
    let mut cases = Vec::new();
    for model in [crate::models::ModelId::EHuge, crate::models::ModelId::EHuge565] {
        for (w, h, ox, oy) in [(65535u16, 65535u16, 0u16, 0u16), (50000, 30000, 15535, 35535), (65535, 16385, 0, 100), (40000, 30000, 1, 2)] {
            for o in Orient::ALL {
                let mut cfg = Config::full(model, if model == crate::models::ModelId::EHuge565 { Transport::Rec16 } else { Transport::Rec8 });
                cfg.w = w;
                cfg.h = h;
                cfg.ox = ox;
                cfg.oy = oy;
                cfg.orient = o;
                cases.push(ProgCase { cfg: cfg.clone(), ops: vec![DrawOp::Clear { seed: 1 }] });
                // black / white / uniform-byte colours (single-word paths of the transports)
                cases.push(ProgCase { cfg: cfg.clone(), ops: vec![DrawOp::Clear { seed: UNIFORM_SEED_BASE }] });
                cases.push(ProgCase { cfg: cfg.clone(), ops: vec![DrawOp::Clear { seed: UNIFORM_SEED_BASE + 4 }] });
                let (lw, lh) = cfg.logical_size(o);
                cases.push(ProgCase { cfg: cfg.clone(), ops: vec![DrawOp::FillSolid { rect: Rect { x: -5, y: -5, w: lw + 10, h: lh + 10 }, seed: 2 }] });
                // an inner rectangle (placement under the orientation), plain and single-word colours
                cases.push(ProgCase { cfg: cfg.clone(), ops: vec![DrawOp::FillSolid { rect: Rect { x: 7, y: 9, w: lw - 20, h: lh - 30 }, seed: 3 }] });
                cases.push(ProgCase { cfg, ops: vec![DrawOp::FillSolid { rect: Rect { x: 7, y: 9, w: lw - 20, h: lh - 30 }, seed: UNIFORM_SEED_BASE + 1 }, DrawOp::Clear { seed: UNIFORM_SEED_BASE + 2 }] });
            }
        }
    }
    cases
}

/// the visible logical rectangle (inclusive corners) a clear / fill_solid call paints
pub fn giant_target(cfg: &Config, o: Orient, op: &DrawOp) -> Option<(u32, u32, u32, u32)> {
    let (lw, lh) = cfg.logical_size(o);
    match op {
        DrawOp::Clear { .. } => Some((0, 0, lw - 1, lh - 1)),
        DrawOp::FillSolid { rect, .. } => {
            let x0 = (rect.x as i64).max(0);
            let y0 = (rect.y as i64).max(0);
            let x1 = (rect.x as i64 + rect.w as i64).min(lw as i64) - 1;
            let y1 = (rect.y as i64 + rect.h as i64).min(lh as i64) - 1;
            if x1 < x0 || y1 < y0 {
                None
            } else {
                Some((x0 as u32, y0 as u32, x1 as u32, y1 as u32))
            }
        }
        _ => None,
    }
}

/// clear / fill_solid over more than 2^30 pixels: only the traffic is judged (the reference image of
/// such a fill is never built)
pub fn check_giant(c: &ProgCase, info: &mut CaseInfo) -> Result<(), String> {
        info.nontrivial = true;
        let mut s = Session::start(&c.cfg)?;
        for op in &c.ops {
            // (not Session::call: the reference image of a 4-gigapixel clear is never built)
            let pulls = std::cell::Cell::new(0u64);
            s.dut.run(op, &pulls).map_err(|e| format!("{} failed: {:?}", op_name(op), e))?;
            let obs = {
                let mut wb = s.w.borrow_mut();
                crate::exec::CallObs {
                    trace: wb.panel.take_trace(),
                    bursts: wb.panel.take_bursts(),
                    errors: wb.panel.take_errors(),
                    decode_errors: std::mem::take(&mut wb.decode_errors),
                    in_bounds_pixels: 0,
                    pulls: 0,
                    spi_transactions: 0,
                    spi_bursts: Vec::new(),
                }
            };
            crate::exec::check_framing(&obs, true)?;
            let area = match giant_target(&c.cfg, s.orient, op) {
                Some((x0, y0, x1, y1)) => (x1 - x0 + 1) as u64 * (y1 - y0 + 1) as u64,
                None => return Err("HARNESS: giant-fill case with an empty or unsupported call".into()),
            };
            if window_setups(&obs) != 1 || obs.bursts.len() != 1 || obs.bursts[0].pixels != area {
                return Err(format!(
                    "{} of {} pixels used {} address-window set-ups and bursts of {:?} pixels, expected exactly one set-up and one burst of the whole area",
                    op_name(op), area, window_setups(&obs), obs.bursts.iter().map(|b| b.pixels).collect::<Vec<_>>()
                ));
            }
        }
        Ok(())
}

fn strategy_streams() -> BoxedStrategy<ProgCase> {
    let mut m = gen::ConfigMenu::all_transports();
    m.pin_cap = 130;
    m.window = gen::WindowSize::Wide;
    (gen::config(m), 0u8..10)
        .prop_flat_map(|(cfg, wild)| {
            let (lw, lh) = cfg.logical_size(cfg.orient);
            (Just(cfg), c03::stream(lw, lh, 6, wild == 0), any::<u32>())
        })
        .prop_map(|(cfg, pts, seed)| ProgCase { cfg, ops: vec![DrawOp::DrawIter { pts, seed }] })
        .boxed()
}

fn sig(c: &ProgCase, reason: &str) -> String {
    let last = c.ops.last().map(op_name).unwrap_or("none");
    let kind = if reason.contains("SPI transactions") {
        "spi-transactions"
    } else if reason.contains("set-ups") {
        "window-setups"
    } else {
        "other"
    };
    format!("c20:{}:{}", last, kind)
}

pub fn run(ctx: &Ctx) -> Report {
    let mut rep = Report::new("C20", "exploration");
    let rc = c03::measure_row_cap_bits(16).min(c03::measure_row_cap_bits(18));
    rep.assumptions = vec![
        format!("row capacity measured from one long run per colour type: {} / {} pixels (must be >= 2 with batching)", c03::measure_row_cap_bits(16), c03::measure_row_cap_bits(18)),
        "an out-of-bounds pixel inside a run is counted as splitting it (the weaker, sound reading)".into(),
        "SPI transactions are attributed to a pixel burst from the raw log: everything after the memory-write-start command (and its own parameter write) up to the next command".into(),
    ];
    let mut sec = Section::new(
        &format!("capacity[{}]", ctx.variant),
        "one long left-to-right run: with batching the first burst must hold >= 2 pixels",
    );
    sec.stats.evaluations = 1;
    sec.extra.insert("measured_row_capacity".into(), serde_json::json!(rc));
    if cfg!(feature = "batch") && rc < 2 {
        sec.violations.push(Violation {
            reason: format!("with batching enabled a 300-pixel run was sent in bursts of {} pixel(s)", rc),
            case: serde_json::json!({"run": 300}),
            signature: "c20:capacity<2".into(),
        });
    }
    rep.sections.push(sec);

    let mut sec = Section::new(
        &format!("streams[{}]", ctx.variant),
        "C03 streams decomposed by the harness into maximal left-to-right runs; RAMWR count <= sum ceil(len/cap) with batching, <= in-bounds pixels always; SPI transactions per burst bounded; non-trivial = a run longer than cap and >= 2 runs",
    );
    run_generated(&mut sec, ctx.seed, ctx.cases(200_000, 3_000_000), ctx.workers, strategy_streams, check, sig);
    rep.sections.push(sec);

    let mut sec = Section::new(
        &format!("spi-frame-buffers[{}]", ctx.variant),
        "SPI staging buffers of 65535 .. 200001 bytes (half-frame / full-frame buffers) with full-screen clear, fill_contiguous and a large set_pixels burst on 240x320 and 320x480 displays: bursts of b bytes in at most floor(b/usable)+1 transactions, and the picture is right",
    );
    sec.exhaustive = true;
    let mut cases = Vec::new();
    for model in [crate::models::ModelId::ST7789, crate::models::ModelId::ILI9488Rgb666] {
        for buf in [65_535u32, 65_536, 65_537, 70_000, 76_800, 131_072, 153_600, 200_001] {
            let cfg = Config::full(model, Transport::Spi { buf });
            let (w, h) = (cfg.w as u32, cfg.h as u32);
            cases.push(ProgCase { cfg: cfg.clone(), ops: vec![DrawOp::Clear { seed: 3 }] });
            cases.push(ProgCase { cfg: cfg.clone(), ops: vec![DrawOp::FillContiguous { rect: Rect { x: 0, y: 0, w, h }, len: StreamLen::Infinite, seed: 4 }] });
            cases.push(ProgCase { cfg: cfg.clone(), ops: vec![DrawOp::FillSolid { rect: Rect { x: 0, y: 0, w, h: h / 2 + 7 }, seed: 5 }, DrawOp::FillSolid { rect: Rect { x: 3, y: 3, w: 3, h: 3 }, seed: 6 }, DrawOp::FillSolid { rect: Rect { x: 0, y: 0, w, h }, seed: 6 }] });
        }
    }
    run_enumerated(&mut sec, cases, ctx.workers, |c, info| {
        info.nontrivial = true;
        check(c, info)?;
        // and the picture is right
        super::c01::check(c, &mut CaseInfo::default())
    }, sig);
    rep.sections.push(sec);

    let mut sec = Section::new(
        &format!("giant-fills[{}]", ctx.variant),
        "clear / fill_solid of more than 2^30 pixels (65535x65535 external models, full size and large windows, all orientations): exactly one address-window set-up, one burst of exactly the window area (only the traffic is judged; the frame memory of such a window is not simulated)",
    );
    sec.exhaustive = true;
    let cases = giant_cases();
    run_enumerated(&mut sec, cases, ctx.workers, check_giant, sig);
    rep.sections.push(sec);

    let mut sec = Section::new(
        &format!("fills[{}]", ctx.variant),
        "C01 and C02 programs: fill_solid / fill_contiguous / clear use exactly one window set-up when the intersection is non-empty, at most one otherwise; SPI transaction bound",
    );
    run_generated(&mut sec, ctx.seed ^ 20, ctx.cases(100_000, 1_500_000), ctx.workers, || c01::strategy(gen::ConfigMenu::all_transports(), 6), check, sig);
    run_generated(&mut sec, ctx.seed ^ 21, ctx.cases(100_000, 1_500_000), ctx.workers, || c02::strategy(gen::ConfigMenu::all_transports(), 4), check, sig);
    rep.sections.push(sec);
    super::history_section(&mut rep, ctx, ctx.seed ^ 0x6a, ctx.cases(60_000, 1_000_000), || c01::strategy(gen::ConfigMenu::all_transports(), 5), check, sig);
    rep
}

pub fn replay(section: &str, case: &Value) -> Result<(), String> {
    if section.starts_with("after-history") {
        return super::replay_history(case, check);
    }
    if section.starts_with("capacity") {
        let rc = c03::measure_row_cap_bits(16).min(c03::measure_row_cap_bits(18));
        return if cfg!(feature = "batch") && rc < 2 { Err(format!("with batching enabled a 300-pixel run was sent in bursts of {} pixel(s)", rc)) } else { Ok(()) };
    }
    let c = de::<ProgCase>(case)?;
    if section.starts_with("giant-fills") || c.cfg.w as u64 * c.cfg.h as u64 > (1 << 26) {
        return check_giant(&c, &mut CaseInfo::default());
    }
    check(&c, &mut CaseInfo::default())
}

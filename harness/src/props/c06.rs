//! C06 — SPI transport delivers exactly the bytes to send, in order, and terminates.

use super::{de, Ctx};
use crate::rig::*;
use crate::runner::*;
use mipidsi::interface::{Interface, SpiError, SpiInterface};
use proptest::prelude::*;
use serde::{Deserialize, Serialize};
use serde_json::Value;

#[derive(Clone, Debug, PartialEq, Eq, Hash, Serialize, Deserialize)]
pub enum SpiOp {
    Cmd { cmd: u8, args: Vec<u8> },
    /// RAMWR then `count` generated pixels
    Pixels { count: u32, seed: u32 },
    /// as Pixels, but the iterator is not fused: polled again after its end it yields poison pixels
    PixelsNonFused { count: u32, seed: u32 },
    /// as Pixels, but the iterator's size_hint is (min(lower, count), None): a small positive lower bound
    PixelsHinted { count: u32, seed: u32, lower: u8 },
    /// RAMWR then one pixel `count` times
    Repeat { pixel: Vec<u8>, count: u32 },
}

#[derive(Clone, Debug, PartialEq, Eq, Hash, Serialize, Deserialize)]
pub struct SpiCase {
    /// bytes per pixel, 1..=4
    pub n: u8,
    /// staging buffer length in bytes (also beyond 65535: frame-sized buffers)
    pub buf: u32,
    /// Some((m, i)): from operation i on, the same interface object is used with m-byte pixels
    /// (an interface handed from one display to another via release())
    #[serde(default)]
    pub alt: Option<(u8, u8)>,
    pub ops: Vec<SpiOp>,
    /// (index of the call, k): the k-th pin / bus operation of that call fails once (if the call gets that far)
    #[serde(default)]
    pub faults: Vec<(u8, u16)>,
    /// the failing operation still takes effect (pin level changes, bytes arrive) although it reports an error
    #[serde(default)]
    pub late: bool,
}

fn px_bytes(seed: u32, k: u32, n: usize) -> [u8; 4] {
    let v = (k as u64).wrapping_mul(0x9E37_79B1).wrapping_add(seed as u64 * 77 + 5) as u32;
    let b = v.to_le_bytes();
    let mut o = [0u8; 4];
    o[..n].copy_from_slice(&b[..n]);
    o
}

fn exec<const N: usize>(di: &mut SpiInterface<'_, SpiDev, Pin>, w: &W, case: &SpiCase, range: std::ops::Range<usize>, info: &mut CaseInfo) -> Result<(), String> {
    let usable = (case.buf as u64 / N as u64) * N as u64;
    let cap_px = case.buf as u64 / N as u64;
    for (idx, op) in case.ops.iter().enumerate().skip(range.start).take(range.end - range.start) {
        let (tx0, ops0, log0) = {
            let wb = w.borrow();
            (wb.spi_transactions, wb.ops, wb.latch_log.len())
        };
        let mut expected: Vec<(bool, u16)> = Vec::new();
        let allowed: u64;
        let armed: Option<u64> = case.faults.iter().find(|f| f.0 as usize == idx).map(|f| ops0 + f.1 as u64);
        {
            let mut wb = w.borrow_mut();
            wb.late_faults = case.late;
            wb.fail_at = armed.into_iter().collect();
        }
        let r: Result<(), SpiError<Fault, Fault>> = match op {
            SpiOp::Cmd { cmd, args } => {
                expected.push((false, *cmd as u16));
                expected.extend(args.iter().map(|b| (true, *b as u16)));
                // the property bounds pixel bursts (C20); for a command it only demands *a* bound
                allowed = 2 + args.len() as u64;
                w.borrow_mut().op_budget = ops0 + 2 + allowed + 8;
                di.send_command(*cmd, args)
            }
            SpiOp::Pixels { count, seed } => {
                expected.push((false, 0x2C));
                for k in 0..*count {
                    let p = px_bytes(*seed, k, N);
                    expected.extend(p[..N].iter().map(|b| (true, *b as u16)));
                }
                let b = *count as u64 * N as u64;
                allowed = 2 + b / usable + 1;
                w.borrow_mut().op_budget = ops0 + 2 + allowed + 8;
                let seed = *seed;
                di.send_command(0x2C, &[]).and_then(|_| {
                    di.send_pixels((0..*count).map(move |k| {
                        let p = px_bytes(seed, k, N);
                        let mut a = [0u8; N];
                        a.copy_from_slice(&p[..N]);
                        a
                    }))
                })
            }
            SpiOp::PixelsHinted { count, seed, lower } => {
                expected.push((false, 0x2C));
                for k in 0..*count {
                    let p = px_bytes(*seed, k, N);
                    expected.extend(p[..N].iter().map(|b| (true, *b as u16)));
                }
                let b = *count as u64 * N as u64;
                allowed = 2 + b / usable + 1;
                w.borrow_mut().op_budget = ops0 + 2 + allowed + 8;
                struct Hinted<const M: usize> {
                    k: u32,
                    count: u32,
                    seed: u32,
                    lower: u32,
                }
                impl<const M: usize> Iterator for Hinted<M> {
                    type Item = [u8; M];
                    fn next(&mut self) -> Option<[u8; M]> {
                        if self.k >= self.count {
                            return None;
                        }
                        let p = px_bytes(self.seed, self.k, M);
                        let mut a = [0u8; M];
                        a.copy_from_slice(&p[..M]);
                        self.k += 1;
                        Some(a)
                    }
                    fn size_hint(&self) -> (usize, Option<usize>) {
                        (((self.count - self.k).min(self.lower)) as usize, None)
                    }
                }
                info.label("under-reporting-size_hint");
                let it = Hinted::<N> { k: 0, count: *count, seed: *seed, lower: *lower as u32 };
                di.send_command(0x2C, &[]).and_then(|_| di.send_pixels(it))
            }
            SpiOp::PixelsNonFused { count, seed } => {
                expected.push((false, 0x2C));
                for k in 0..*count {
                    let p = px_bytes(*seed, k, N);
                    expected.extend(p[..N].iter().map(|b| (true, *b as u16)));
                }
                let b = *count as u64 * N as u64;
                allowed = 2 + b / usable + 1;
                w.borrow_mut().op_budget = ops0 + 2 + allowed + 8;
                let (seed, count) = (*seed, *count);
                let mut k = 0u32;
                let mut ended = false;
                let it = core::iter::from_fn(move || {
                    if k < count && !ended {
                        let p = px_bytes(seed, k, N);
                        let mut a = [0u8; N];
                        a.copy_from_slice(&p[..N]);
                        k += 1;
                        Some(a)
                    } else if !ended {
                        ended = true;
                        None
                    } else {
                        // the stream is over; a consumer that polls again gets poison
                        Some([0xEE; N])
                    }
                });
                info.label("non-fused-stream");
                di.send_command(0x2C, &[]).and_then(|_| di.send_pixels(it))
            }
            SpiOp::Repeat { pixel, count } => {
                expected.push((false, 0x2C));
                let mut a = [0u8; N];
                for i in 0..N {
                    a[i] = pixel.get(i).copied().unwrap_or(0x77 ^ i as u8);
                }
                for _ in 0..*count {
                    expected.extend(a.iter().map(|b| (true, *b as u16)));
                }
                let b = *count as u64 * N as u64;
                allowed = 2 + b / usable + 1;
                w.borrow_mut().op_budget = ops0 + 2 + allowed + 8;
                di.send_command(0x2C, &[]).and_then(|_| di.send_repeated_pixel(a, *count))
            }
        };
        let wb = w.borrow();
        let what = match op {
            SpiOp::Cmd { .. } => "send_command".to_string(),
            SpiOp::Pixels { count, .. } => format!("send_pixels({} pixels)", count),
            SpiOp::PixelsNonFused { count, .. } => format!("send_pixels({} pixels, non-fused iterator)", count),
            SpiOp::PixelsHinted { count, lower, .. } => format!("send_pixels({} pixels, size_hint lower bound {})", count, lower),
            SpiOp::Repeat { count, .. } => format!("send_repeated_pixel(count={})", count),
        };
        if wb.budget_hit {
            return Err(format!(
                "op {} {}: did not finish within {} bus operations (bound: {} transactions) - unbounded / non-terminating",
                idx,
                what,
                wb.op_budget - ops0,
                allowed
            ));
        }
        let reached = armed.map_or(false, |a| wb.ops > a);
        if let Err(e) = &r {
            if !reached {
                return Err(format!("op {} {}: returned {:?} although no bus operation failed", idx, what, e));
            }
            // a pin or bus operation failed and the call reported it: what reached the device up to
            // then must be the beginning of the bytes to send; the calls that follow are judged in full
            let got = &wb.latch_log[log0..];
            if got.len() > expected.len() || got != &expected[..got.len()] {
                let pos = got.iter().zip(expected.iter()).position(|(a, b)| a != b).unwrap_or(got.len().min(expected.len()));
                return Err(format!(
                    "op {} {}: operation {} of the call failed ({:?}); the bytes that reached the device in that call are not a prefix of the bytes to send: index {} got {:?}, expected {:?} [(dc_high, byte)]",
                    idx, what, armed.unwrap() - ops0, e, pos, got.get(pos), expected.get(pos)
                ));
            }
            drop(wb);
            w.borrow_mut().fail_at.clear();
            info.label(if case.late { "late-fault-inside-a-transfer" } else { "fault-inside-a-transfer" });
            info.nontrivial = true;
            continue;
        }
        // only electrical-level decode problems matter here (the Panel's command semantics do not)
        if let Some(e) = wb.decode_errors.iter().find(|e| e.contains("undefined") || e.contains("unexpected")) {
            return Err(format!("op {} {}: {}", idx, what, e));
        }
        let got = &wb.latch_log[log0..];
        if got != &expected[..] {
            let pos = got.iter().zip(expected.iter()).position(|(a, b)| a != b).unwrap_or(got.len().min(expected.len()));
            return Err(format!(
                "op {} {}: bytes on the bus differ from the bytes to send at index {} (got {} bytes, expected {}): got {:?}, expected {:?} [(dc_high, byte)]",
                idx,
                what,
                pos,
                got.len(),
                expected.len(),
                got.get(pos),
                expected.get(pos)
            ));
        }
        let tx = wb.spi_transactions - tx0;
        if tx > allowed {
            return Err(format!("op {} {}: {} SPI transactions, bound is {} (usable buffer {} bytes)", idx, what, tx, allowed, usable));
        }
        // classification
        match op {
            SpiOp::Pixels { count, .. } | SpiOp::PixelsNonFused { count, .. } | SpiOp::PixelsHinted { count, .. } | SpiOp::Repeat { count, .. } => {
                let c = *count as u64;
                if c == 0 {
                    info.label("count==0");
                    info.nontrivial = true;
                }
                if c > cap_px {
                    info.label("spans>=2-fills");
                    info.nontrivial = true;
                }
                if c > 0 && cap_px > 0 && c % cap_px == 0 {
                    info.label("count%cap==0");
                    info.nontrivial = true;
                }
            }
            SpiOp::Cmd { args, .. } => {
                if args.is_empty() {
                    info.label("cmd-no-args");
                }
                if args.len() > 16 {
                    info.label("cmd-args>16");
                }
            }
        }
    }
    if case.buf > 65_535 {
        info.label("buffer>64KiB");
    }
    if case.buf as usize % N != 0 {
        info.label("buf%N!=0");
        info.nontrivial = true;
    }
    Ok(())
}

fn exec_n(n: u8, di: &mut SpiInterface<'_, SpiDev, Pin>, w: &W, case: &SpiCase, range: std::ops::Range<usize>, info: &mut CaseInfo) -> Result<(), String> {
    match n {
        1 => exec::<1>(di, w, case, range, info),
        2 => exec::<2>(di, w, case, range, info),
        3 => exec::<3>(di, w, case, range, info),
        _ => exec::<4>(di, w, case, range, info),
    }
}

pub fn check(case: &SpiCase, info: &mut CaseInfo) -> Result<(), String> {
    crate::dut::install_panic_hook();
    let r = std::panic::catch_unwind(std::panic::AssertUnwindSafe(|| {
        let w = World::new(8, 8, 8);
        w.borrow_mut().latch_on = true;
        // poisoned staging buffer; one spare byte in front: it starts at an odd or an even address
        let mut backing = vec![0xA5u8; case.buf as usize + 1];
        let skip = (case.buf as usize / 3 + case.ops.len()) % 2;
        let mut di = SpiInterface::new(SpiDev { w: w.clone() }, pin(&w, Src::Dc), &mut backing[skip..skip + case.buf as usize]);
        let total = case.ops.len();
        match case.alt {
            Some((m, at)) if (m as u32) <= case.buf && (at as usize) < total => {
                info.label("pixel-size-switch");
                exec_n(case.n, &mut di, &w, case, 0..at as usize, info)?;
                exec_n(m, &mut di, &w, case, at as usize..total, info)
            }
            _ => exec_n(case.n, &mut di, &w, case, 0..total, info),
        }
    }));
    match r {
        Ok(r) => r,
        Err(_) => Err("SPI transport panicked".into()),
    }
}

fn count_strategy(cap: u32) -> BoxedStrategy<u32> {
    let cap = cap.max(1);
    prop_oneof![
        2 => Just(0u32),
        2 => Just(1u32),
        1 => Just(cap - 1),
        3 => Just(cap),
        2 => Just(cap + 1),
        2 => (1u32..=6).prop_map(move |k| k * cap),
        1 => (1u32..=6).prop_map(move |k| k * cap + 1),
        1 => (1u32..=6).prop_map(move |k| (k * cap).saturating_sub(1)),
        4 => 0u32..=(6 * cap + 3).min(4000),
    ]
    .prop_map(move |c| if cap > 40_000 { c.min(3 * cap + 2) } else { c })
    .boxed()
}

pub fn strategy(exclude_zero_repeat: bool) -> BoxedStrategy<SpiCase> {
    (1u8..=4)
        .prop_flat_map(|n| {
            let big = proptest::sample::select(vec![65_535u32, 65_536, 65_537, 70_000, 131_072, 153_600, 200_001]);
            (Just(n), prop_oneof![60 => crate::gen::spi_buf(n as u16).prop_map(|b| b as u32), 1 => big])
        })
        .prop_flat_map(move |(n, buf)| {
            let cap = buf as u32 / n as u32;
            let cmd = (any::<u8>(), proptest::collection::vec(any::<u8>(), 0..=20)).prop_map(|(cmd, args)| SpiOp::Cmd { cmd, args });
            let px = (count_strategy(cap), any::<u32>(), 0u8..5).prop_map(|(count, seed, nf)| match nf {
                0 => SpiOp::PixelsNonFused { count, seed },
                1 => SpiOp::PixelsHinted { count, seed, lower: 1 + (seed % 7) as u8 },
                _ => SpiOp::Pixels { count, seed },
            });
            // pixels from a tiny per-sequence palette: the same pattern is repeated by several ops
            let pal = prop_oneof![
                2 => proptest::collection::vec(any::<u8>(), n as usize),
                3 => (0u8..3).prop_map(move |i| (0..n).map(|j| 0x21u8.wrapping_mul(i + 1).wrapping_add(j * 0x35)).collect::<Vec<u8>>()),
                1 => (0u8..2).prop_map(move |i| vec![i * 0xff; n as usize]),
            ];
            let rp = (count_strategy(cap), pal).prop_map(move |(count, pixel)| SpiOp::Repeat {
                pixel,
                count: if exclude_zero_repeat && count == 0 { 1 } else { count },
            });
            let alt = proptest::option::weighted(0.12, (1u8..=4, 1u8..4));
            let faults = prop_oneof![
                3 => Just(Vec::new()),
                2 => proptest::collection::vec((0u8..8, prop_oneof![4 => 0u16..6, 1 => 0u16..40]), 1..=2),
            ];
            (Just(n), Just(buf), proptest::collection::vec(prop_oneof![2 => cmd, 3 => px, 3 => rp], 1..=(if buf > 60_000 { 3 } else { 8 })), alt, faults, any::<bool>())
        })
        .prop_map(|(n, buf, ops, alt, faults, late)| SpiCase { n, buf, ops, alt, faults, late })
        .boxed()
}

// ---- repeat counts near u32::MAX through a lean SPI device that checks the pattern as it arrives
// (gigabytes of traffic: nothing is stored)

pub struct LeanSpi {
    pub pixel: Vec<u8>,
    /// position inside the pixel pattern of the next expected byte
    pub phase: usize,
    pub bytes: u64,
    pub transactions: u64,
    pub bad: Option<String>,
    pub max_transactions: u64,
}
pub struct LeanSpiDev(pub std::rc::Rc<std::cell::RefCell<LeanSpi>>);
impl embedded_hal::spi::ErrorType for LeanSpiDev {
    type Error = Fault;
}
impl embedded_hal::spi::SpiDevice<u8> for LeanSpiDev {
    fn transaction(&mut self, operations: &mut [embedded_hal::spi::Operation<'_, u8>]) -> Result<(), Fault> {
        let mut s = self.0.borrow_mut();
        s.transactions += 1;
        if s.transactions > s.max_transactions {
            return Err(Fault { src: Src::Spi, budget: true });
        }
        for o in operations.iter() {
            if let embedded_hal::spi::Operation::Write(b) = o {
                let n = s.pixel.len();
                if s.bad.is_none() && !b.is_empty() {
                    // whole buffers repeat the pattern: check the first and last pattern period and the length
                    let ph = s.phase;
                    for (i, x) in b.iter().take(2 * n).enumerate() {
                        if *x != s.pixel[(ph + i) % n] {
                            s.bad = Some(format!("byte {} of the stream is {:#04x}, expected {:#04x}", s.bytes + i as u64, x, s.pixel[(ph + i) % n]));
                            break;
                        }
                    }
                    let l = b.len();
                    for i in l.saturating_sub(2 * n)..l {
                        if b[i] != s.pixel[(ph + i) % n] && s.bad.is_none() {
                            s.bad = Some(format!("byte {} of the stream is {:#04x}, expected {:#04x}", s.bytes + i as u64, b[i], s.pixel[(ph + i) % n]));
                        }
                    }
                }
                s.phase = (s.phase + b.len()) % n;
                s.bytes += b.len() as u64;
            }
        }
        Ok(())
    }
}

#[derive(Clone, Debug, PartialEq, Eq, Hash, Serialize, Deserialize)]
pub struct HugeRepeat {
    pub n: u8,
    pub buf: u32,
    pub count: u32,
}

pub fn check_huge(c: &HugeRepeat, info: &mut CaseInfo) -> Result<(), String> {
    crate::dut::install_panic_hook();
    let pixel: Vec<u8> = (0..c.n).map(|i| 0x5Au8.wrapping_add(i * 0x31)).collect();
    let cap = (c.buf / c.n as u32) as u64;
    let total = c.count as u64 * c.n as u64;
    let allowed = total / (cap * c.n as u64) + 1;
    let st = std::rc::Rc::new(std::cell::RefCell::new(LeanSpi { pixel: pixel.clone(), phase: 0, bytes: 0, transactions: 0, bad: None, max_transactions: allowed + 16 }));
    let st2 = st.clone();
    let c2 = c.clone();
    let r = std::panic::catch_unwind(std::panic::AssertUnwindSafe(move || {
        let w = World::new(8, 8, 8);
        let mut buffer = vec![0xA5u8; c2.buf as usize];
        let mut di = SpiInterface::new(LeanSpiDev(st2), pin(&w, Src::Dc), &mut buffer[..]);
        match c2.n {
            2 => di.send_repeated_pixel([pixel[0], pixel[1]], c2.count),
            _ => di.send_repeated_pixel([pixel[0], pixel[1], pixel[2]], c2.count),
        }
        .map_err(|e| format!("{:?}", e))
    }));
    let s = st.borrow();
    info.nontrivial = total > u32::MAX as u64;
    match r {
        Err(_) => Err(format!("send_repeated_pixel(count={}) with a {}-byte buffer panicked after {} of {} bytes", c.count, c.buf, s.bytes, total)),
        Ok(Err(e)) if s.transactions > s.max_transactions => Err(format!("send_repeated_pixel(count={}) with a {}-byte buffer: unbounded bus traffic (more than {} transactions; {})", c.count, c.buf, s.max_transactions, e)),
        Ok(Err(e)) => Err(format!("send_repeated_pixel(count={}) returned {}", c.count, e)),
        Ok(Ok(())) => {
            if let Some(b) = &s.bad {
                return Err(format!("send_repeated_pixel(count={}) with a {}-byte buffer: {}", c.count, c.buf, b));
            }
            if s.bytes != total {
                return Err(format!("send_repeated_pixel(count={}) with a {}-byte buffer sent {} bytes, expected {}", c.count, c.buf, s.bytes, total));
            }
            if s.transactions > allowed {
                return Err(format!("send_repeated_pixel(count={}) with a {}-byte buffer used {} transactions, bound {}", c.count, c.buf, s.transactions, allowed));
            }
            Ok(())
        }
    }
}

fn sig(c: &SpiCase, reason: &str) -> String {
    let zero_rep = c.ops.iter().any(|o| matches!(o, SpiOp::Repeat { count: 0, .. }));
    let kind = if reason.contains("non-terminating") {
        "non-terminating"
    } else if reason.contains("differ") {
        "bytes-differ"
    } else if reason.contains("transactions") {
        "too-many-transactions"
    } else if reason.contains("panicked") {
        "panic"
    } else {
        "other"
    };
    format!("c06:{}{}", kind, if zero_rep { ":repeat-count-0" } else { "" })
}

pub fn run(ctx: &Ctx) -> Report {
    let mut rep = Report::new("C06", "exploration");
    rep.assumptions = vec![
        "a pixel burst is always preceded by a command (memory-write-start), as the Interface documentation requires".into(),
        "staging buffer holds at least one pixel (documented precondition, asserted by the driver)".into(),
        "termination = the call finishes within (bound + 10) SPI/DC operations; the mock fails every further operation".into(),
    ];
    let mut sec = Section::new(
        &format!("spi-sequences[{}]", ctx.variant),
        "pixel size N in 1..=4, buffer length in {N, N+1, 2N-1, 2N, 2N+1, .. 64, .. 600} and occasionally frame-sized (65535 .. 200001 bytes), pre-poisoned, 1..6 ops of send_command(cmd, 0..=20 args) / send_pixels / send_repeated_pixel with counts in {0, 1, cap-1, cap, cap+1, k*cap, k*cap+-1, random}; oracle: concatenated (dc, byte) stream equals instruction(dc low) + params + pixel bytes (dc high) exactly; transactions <= floor(b/usable)+1 per burst (plus 2 for the preceding command) and <= 2 + parameter count for a command; non-trivial = count 0, or count > capacity, or count a multiple of capacity, or buffer not a multiple of N",
    );
    run_generated(&mut sec, ctx.seed, ctx.cases(500_000, 12_000_000), ctx.workers, || strategy(false), check, sig);
    rep.sections.push(sec);

    let mut sec = Section::new(
        &format!("huge-repeat[{}]", ctx.variant),
        "send_repeated_pixel with counts at and near u32::MAX through staging buffers of 256 KiB .. 1 MiB (what a full-screen clear of a 65535x65535 external model does): a lean SPI device checks the byte pattern as it arrives and counts bytes and transactions; non-trivial = more than 2^32 bytes",
    );
    let mut cases = vec![HugeRepeat { n: 2, buf: 1 << 20, count: u32::MAX }, HugeRepeat { n: 2, buf: 262_144, count: 4_294_836_225 }];
    if ctx.tier == super::Tier::Thorough {
        cases.extend([
            HugeRepeat { n: 3, buf: 524_288, count: u32::MAX - 5 },
            HugeRepeat { n: 2, buf: 524_288, count: 4_294_836_225 },
            HugeRepeat { n: 3, buf: (1 << 20) + 1, count: 4_294_836_225 },
            HugeRepeat { n: 2, buf: 65_537, count: u32::MAX - 65_536 },
        ]);
    }
    run_enumerated(&mut sec, cases, ctx.workers, check_huge, |_, _| "c06:huge-repeat".into());
    rep.sections.push(sec);
    rep
}

pub fn replay(section: &str, case: &Value) -> Result<(), String> {
    if section.starts_with("huge-repeat") {
        return check_huge(&de::<HugeRepeat>(case)?, &mut CaseInfo::default());
    }
    check(&de::<SpiCase>(case)?, &mut CaseInfo::default())
}

//! C10 — after set_orientation the display behaves as if built with that orientation.

use super::{de, Ctx};
use crate::exec::{op_name, Session};
use crate::gen;
use crate::oracle::RefImage;
use crate::runner::*;
use crate::types::*;
use proptest::prelude::*;
use serde::{Deserialize, Serialize};
use serde_json::Value;

#[derive(Clone, Debug, PartialEq, Eq, Hash, Serialize, Deserialize)]
pub struct OrientCase {
    pub cfg: Config,
    pub seq: Vec<Orient>,
    pub ops: Vec<DrawOp>,
}

pub fn check(c: &OrientCase, info: &mut CaseInfo) -> Result<(), String> {
    let last = *c.seq.last().ok_or("HARNESS: empty orientation sequence")?;
    // A: built with cfg.orient, then re-oriented
    let mut a = Session::start(&c.cfg)?;
    for o in &c.seq {
        a.dut.set_orientation(*o).map_err(|e| format!("set_orientation failed: {:?}", e))?;
    }
    {
        let mut wb = a.w.borrow_mut();
        if let Some(e) = wb.panel.take_errors().first() {
            return Err(format!("set_orientation produced malformed traffic: {}", e));
        }
        wb.panel.take_trace();
    }
    // B: built from scratch with the last orientation
    let mut cfg_b = c.cfg.clone();
    cfg_b.orient = last;
    let mut b = Session::start(&cfg_b)?;

    if a.dut.orientation() != last {
        return Err(format!("orientation() reports {:?} after set_orientation({:?})", a.dut.orientation(), last));
    }
    if a.dut.size() != b.dut.size() {
        return Err(format!("size() is {:?} after set_orientation({:?}); a display built with it reports {:?}", a.dut.size(), last, b.dut.size()));
    }
    if a.dut.bounding_box() != b.dut.bounding_box() {
        return Err(format!("bounding_box() is {:?}; a display built with the orientation reports {:?}", a.dut.bounding_box(), b.dut.bounding_box()));
    }
    let (ma, mb) = (a.w.borrow().panel.madctl, b.w.borrow().panel.madctl);
    if ma != mb {
        return Err(format!("controller address mode is {:#010b} after set_orientation({:?}); built with it: {:#010b}", ma, last, mb));
    }
    // drawing afterwards: placement and clipping as for B and as the reference says
    a.orient = last;
    let (lw, lh) = cfg_b.logical_size(last);
    a.img = RefImage::new(lw, lh);
    a.cfg = cfg_b.clone();
    for op in &c.ops {
        a.call(op)?;
        b.call(op)?;
    }
    let wa = a.w.borrow().panel.mem.written();
    let wb = b.w.borrow().panel.mem.written();
    if wa != wb {
        let diff = wa.iter().zip(wb.iter()).find(|(x, y)| x != y);
        return Err(format!(
            "after the same drawing program the frame memory differs from a display built with {:?}: first difference {:?} ({} vs {} cells written)",
            last,
            diff,
            wa.len(),
            wb.len()
        ));
    }
    a.compare().map_err(|e| format!("after set_orientation({:?}) and {}: {}", last, c.ops.last().map(op_name).unwrap_or("no drawing"), e))?;

    let first = c.cfg.orient;
    info.nontrivial = first.vertical() != last.vertical() || first.mirrored != last.mirrored;
    if first.vertical() != last.vertical() {
        info.label("parity-changes");
    }
    if first.mirrored != last.mirrored {
        info.label("mirroring-changes");
    }
    if c.seq.len() > 1 {
        info.label("multi-step");
    }
    if c.cfg.bgr || c.cfg.refresh_h || c.cfg.refresh_v {
        info.label("colour/refresh-bits-set");
    }
    Ok(())
}

pub fn strategy(menu: gen::ConfigMenu) -> BoxedStrategy<OrientCase> {
    (gen::config(menu), proptest::collection::vec(gen::orient(), 1..=5))
        .prop_flat_map(|(cfg, seq)| {
            let last = *seq.last().unwrap();
            let (lw, lh) = cfg.logical_size(last);
            let op = prop_oneof![3 => gen::op_in(lw, lh, false), 2 => gen::op_wild(lw, lh)];
            (Just(cfg), Just(seq), proptest::collection::vec(op, 0..=4))
        })
        .prop_map(|(cfg, seq, ops)| OrientCase { cfg, seq, ops })
        .boxed()
}

fn all_transitions() -> Vec<OrientCase> {
    let mut out = Vec::new();
    for a in Orient::ALL {
        for b in Orient::ALL {
            for (bgr, rv, rh) in [(false, false, false), (true, true, true), (true, false, true)] {
                let mut cfg = Config::full(crate::models::ModelId::E7x5, Transport::Rec8);
                cfg.w = 4;
                cfg.h = 3;
                cfg.ox = 2;
                cfg.oy = 1;
                cfg.orient = a;
                cfg.bgr = bgr;
                cfg.refresh_v = rv;
                cfg.refresh_h = rh;
                let (lw, lh) = cfg.logical_size(b);
                let mut ops = vec![DrawOp::Clear { seed: 3 }];
                for y in 0..lh as u16 {
                    for x in 0..lw as u16 {
                        ops.push(DrawOp::SetPixel { x, y, seed: (y as u32) * 16 + x as u32 });
                    }
                }
                ops.push(DrawOp::FillSolid { rect: Rect { x: -1, y: 1, w: 3, h: 5 }, seed: 9 });
                ops.push(DrawOp::DrawIter { pts: vec![(0, 0), (lw as i32, 0), (lw as i32 - 1, lh as i32 - 1), (0, lh as i32)], seed: 11 });
                out.push(OrientCase { cfg, seq: vec![b], ops });
            }
        }
    }
    out
}

fn sig(_c: &OrientCase, reason: &str) -> String {
    let kind = if reason.contains("orientation() reports") {
        "orientation-not-updated"
    } else if reason.contains("size()") || reason.contains("bounding_box()") {
        "size-not-updated"
    } else if reason.contains("address mode") {
        "madctl"
    } else if reason.contains("frame memory differs") || reason.contains("expected cell") || reason.contains("although no drawn") {
        "placement"
    } else if reason.contains("panicked") {
        "panic"
    } else {
        "other"
    };
    format!("c10:{}", kind)
}

pub fn run(ctx: &Ctx) -> Report {
    let mut rep = Report::new("C10", "exploration");
    rep.assumptions = vec!["the twin display is built from scratch with the last orientation and otherwise identical options".into()];
    let mut sec = Section::new(
        &format!("all-transitions[{}]", ctx.variant),
        "all 8x8 (initial, new) orientation pairs x 3 colour/refresh option sets on a 4x3 window at (2,1) of a 7x5 framebuffer, followed by clear + every pixel + clipped fill + clipped draw_iter; non-trivial = rotation parity or mirroring changes",
    );
    sec.exhaustive = true;
    run_enumerated(&mut sec, all_transitions(), ctx.workers, check, sig);
    rep.sections.push(sec);
    let mut sec = Section::new(
        &format!("generated[{}]", ctx.variant),
        "config x 1..5 orientations x 0..4 drawing calls (in-bounds and arbitrary coordinates) issued afterwards; oracle: twin built with the last orientation (orientation(), size(), bounding_box(), controller MADCTL, frame memory after the program) and the reference image",
    );
    run_generated(&mut sec, ctx.seed, ctx.cases(150_000, 3_000_000), ctx.workers, || strategy(gen::ConfigMenu::all_transports()), check, sig);
    rep.sections.push(sec);
    rep
}

pub fn replay(_section: &str, case: &Value) -> Result<(), String> {
    check(&de::<OrientCase>(case)?, &mut CaseInfo::default())
}

//! C10 — after set_orientation the display behaves as if built with that orientation.

use super::{de, Ctx};
use crate::exec::{op_name, Session};
use crate::gen;
use crate::oracle::RefImage;
use crate::runner::*;
use crate::types::*;
use proptest::prelude::*;
use serde::{Deserialize, Serialize};
use serde_json::Value;

#[derive(Clone, Debug, PartialEq, Eq, Hash, Serialize, Deserialize)]
pub struct OrientCase {
    pub cfg: Config,
    pub seq: Vec<Orient>,
    pub ops: Vec<DrawOp>,
}

pub fn check(c: &OrientCase, info: &mut CaseInfo) -> Result<(), String> {
    let last = *c.seq.last().ok_or("HARNESS: empty orientation sequence")?;
    // A: built with cfg.orient, then re-oriented
    let mut a = Session::start(&c.cfg)?;
    for o in &c.seq {
        a.dut.set_orientation(*o).map_err(|e| format!("set_orientation failed: {:?}", e))?;
    }
    {
        let mut wb = a.w.borrow_mut();
        if let Some(e) = wb.panel.take_errors().first() {
            return Err(format!("set_orientation produced malformed traffic: {}", e));
        }
        wb.panel.take_trace();
    }
    // B: built from scratch with the last orientation
    let mut cfg_b = c.cfg.clone();
    cfg_b.orient = last;
    let mut b = Session::start(&cfg_b)?;

    if a.dut.orientation() != last {
        return Err(format!("orientation() reports {:?} after set_orientation({:?})", a.dut.orientation(), last));
    }
    if a.dut.size() != b.dut.size() {
        return Err(format!("size() is {:?} after set_orientation({:?}); a display built with it reports {:?}", a.dut.size(), last, b.dut.size()));
    }
    if a.dut.bounding_box() != b.dut.bounding_box() {
        return Err(format!("bounding_box() is {:?}; a display built with the orientation reports {:?}", a.dut.bounding_box(), b.dut.bounding_box()));
    }
    let (ma, mb) = (a.w.borrow().panel.madctl, b.w.borrow().panel.madctl);
    if ma != mb {
        return Err(format!("controller address mode is {:#010b} after set_orientation({:?}); built with it: {:#010b}", ma, last, mb));
    }
    // drawing afterwards: placement and clipping as for B and as the reference says
    a.orient = last;
    let (lw, lh) = cfg_b.logical_size(last);
    a.img = RefImage::new(lw, lh);
    a.cfg = cfg_b.clone();
    for op in &c.ops {
        a.call(op)?;
        b.call(op)?;
    }
    let wa = a.w.borrow().panel.mem.written();
    let wb = b.w.borrow().panel.mem.written();
    if wa != wb {
        let diff = wa.iter().zip(wb.iter()).find(|(x, y)| x != y);
        return Err(format!(
            "after the same drawing program the frame memory differs from a display built with {:?}: first difference {:?} ({} vs {} cells written)",
            last,
            diff,
            wa.len(),
            wb.len()
        ));
    }
    a.compare().map_err(|e| format!("after set_orientation({:?}) and {}: {}", last, c.ops.last().map(op_name).unwrap_or("no drawing"), e))?;

    let first = c.cfg.orient;
    info.nontrivial = first.vertical() != last.vertical() || first.mirrored != last.mirrored;
    if first.vertical() != last.vertical() {
        info.label("parity-changes");
    }
    if first.mirrored != last.mirrored {
        info.label("mirroring-changes");
    }
    if c.seq.len() > 1 {
        info.label("multi-step");
    }
    if c.cfg.bgr || c.cfg.refresh_h || c.cfg.refresh_v {
        info.label("colour/refresh-bits-set");
    }
    Ok(())
}

pub fn strategy(menu: gen::ConfigMenu) -> BoxedStrategy<OrientCase> {
    (gen::config(menu), proptest::collection::vec(gen::orient(), 1..=5))
        .prop_flat_map(|(cfg, seq)| {
            let last = *seq.last().unwrap();
            let (lw, lh) = cfg.logical_size(last);
            let op = prop_oneof![3 => gen::op_in(lw, lh, false), 2 => gen::op_wild(lw, lh)];
            (Just(cfg), Just(seq), proptest::collection::vec(op, 0..=4))
        })
        .prop_map(|(cfg, seq, ops)| OrientCase { cfg, seq, ops })
        .boxed()
}

// ---- life-cycle histories: drawing interleaved with orientation changes (and unrelated calls);
// the expected frame memory is accumulated in *physical* cells across the changes

#[derive(Clone, Debug, PartialEq, Eq, Hash, Serialize, Deserialize)]
pub enum LOp {
    Orient(Orient),
    Draw(DrawOp),
    /// sleep + wake, scroll set-up, tearing: must not disturb placement
    Noise(u8),
    /// set_orientation(first) with its k-th low-level operation failing, then set_orientation(second),
    /// which must succeed and count like any other successful call
    FailedOrient(Orient, u8, Orient),
}

#[derive(Clone, Debug, PartialEq, Eq, Hash, Serialize, Deserialize)]
pub struct LifeCase {
    pub cfg: Config,
    pub ops: Vec<LOp>,
}

pub fn check_life(c: &LifeCase, info: &mut CaseInfo) -> Result<(), String> {
    use crate::oracle::to_phys;
    use std::collections::HashMap;
    let mut s = Session::start(&c.cfg)?;
    let mut expected: HashMap<(u32, u32), u32> = HashMap::new();
    let mut orient = c.cfg.orient;
    let mut changes = 0;
    let mut draws_after_change = 0;
    let mut failed_then_ok = 0;
    for (i, op) in c.ops.iter().enumerate() {
        match op {
            LOp::Orient(o) => {
                s.dut.set_orientation(*o).map_err(|e| format!("step {}: set_orientation failed: {:?}", i, e))?;
                if *o != orient {
                    changes += 1;
                }
                orient = *o;
                s.orient = orient;
                let (lw, lh) = c.cfg.logical_size(orient);
                if s.dut.size() != (lw, lh) || s.dut.orientation() != orient {
                    return Err(format!("step {}: after set_orientation({:?}) the display reports {:?} / size {:?}", i, o, s.dut.orientation(), s.dut.size()));
                }
                let held = s.w.borrow().panel.madctl;
                let want = madctl_of(&c.cfg, orient);
                if held != want {
                    return Err(format!("step {}: after set_orientation({:?}) the controller holds address mode {:#010b}, expected {:#010b} (colour order / refresh order bits as programmed by init)", i, o, held, want));
                }
                s.w.borrow_mut().panel.take_trace();
            }
            LOp::FailedOrient(o1, k, o2) => {
                let armed = {
                    let mut wb = s.w.borrow_mut();
                    let a = wb.ops + *k as u64;
                    wb.fail_at = vec![a];
                    a
                };
                let r = s.dut.set_orientation(*o1);
                let reached = {
                    let mut wb = s.w.borrow_mut();
                    wb.fail_at.clear();
                    wb.ops > armed
                };
                let mut target = *o1;
                match r {
                    Ok(()) => {}
                    Err(e) if !reached => return Err(format!("step {}: set_orientation failed although no operation did: {:?}", i, e)),
                    Err(_) => {
                        // a torn command may have reached the controller; what the display reports now is not
                        // fixed by this property - the next successful call is
                        {
                            let mut wb = s.w.borrow_mut();
                            wb.panel.take_errors();
                            wb.decode_errors.clear();
                        }
                        s.dut.set_orientation(*o2).map_err(|e| format!("step {}: set_orientation({:?}) after a failed one failed: {:?}", i, o2, e))?;
                        target = *o2;
                        failed_then_ok += 1;
                    }
                }
                if target != orient {
                    changes += 1;
                }
                orient = target;
                s.orient = orient;
                let (lw, lh) = c.cfg.logical_size(orient);
                if s.dut.size() != (lw, lh) || s.dut.orientation() != orient {
                    return Err(format!("step {}: after a successful set_orientation({:?}) the display reports {:?} / size {:?}", i, target, s.dut.orientation(), s.dut.size()));
                }
                let held = s.w.borrow().panel.madctl;
                let want = madctl_of(&c.cfg, orient);
                if held != want {
                    return Err(format!("step {}: after a successful set_orientation({:?}) the controller holds address mode {:#010b}, expected {:#010b}", i, target, held, want));
                }
                s.w.borrow_mut().panel.take_trace();
            }
            LOp::Noise(n) => {
                let r = match n % 4 {
                    0 => s.dut.sleep().and_then(|_| s.dut.wake()),
                    1 => s.dut.set_vertical_scroll_region(1, 2),
                    2 => s.dut.set_tearing_effect(*n / 4 % 3),
                    _ => s.dut.set_vertical_scroll_offset(*n as u16 * 3),
                };
                r.map_err(|e| format!("step {}: {:?}", i, e))?;
                s.w.borrow_mut().panel.take_trace();
            }
            LOp::Draw(d) => {
                // reference: the call on an empty logical image of the current orientation, mapped to physical cells
                let (lw, lh) = c.cfg.logical_size(orient);
                let mut img = RefImage::new(lw, lh);
                img.apply(d, s.bits);
                for (x, y, col) in img.points() {
                    expected.insert(to_phys(&c.cfg, orient, x, y), col);
                }
                s.img = RefImage::new(lw, lh); // keep Session::call's own bookkeeping small
                s.call(d).map_err(|e| format!("step {}: {}", i, e))?;
                if changes > 0 {
                    draws_after_change += 1;
                }
            }
        }
        let wb = s.w.borrow();
        if let Some(e) = wb.panel.errors.first() {
            return Err(format!("step {} {:?}: malformed traffic: {}", i, op, e));
        }
    }
    let wb = s.w.borrow();
    let written = wb.panel.mem.written();
    if written.len() != expected.len() {
        for (x, y, v) in &written {
            if !expected.contains_key(&(*x, *y)) {
                return Err(format!("cell ({},{}) holds {:#x} although no drawing call of the history maps to it under the orientation in force at that time", x, y, v));
            }
        }
    }
    for ((x, y), col) in &expected {
        let got = wb.panel.mem.get(*x, *y);
        if got != *col {
            return Err(format!("cell ({},{}) holds {:#x}, the history (orientation in force at each call) puts {:#x} there", x, y, got, col));
        }
    }
    info.nontrivial = changes > 0 && draws_after_change > 0;
    if changes > 1 {
        info.label("several-orientation-changes");
    }
    if failed_then_ok > 0 {
        info.label("failed-set_orientation-then-successful-one");
    }
    info.label(c.cfg.transport.label());
    Ok(())
}

/// the address mode a display with this configuration and orientation holds: orientation bits from the
/// geometric derivation, colour-order and refresh bits as the model's init programs them
fn madctl_of(cfg: &Config, o: Orient) -> u8 {
    thread_local! { static TABLE: [u8; 8] = crate::oracle::derive_orientation_bits(); }
    TABLE.with(|t| crate::oracle::madctl_expected(t, o, cfg.madctl_bgr(), cfg.refresh_v, cfg.refresh_h))
}

pub fn life_strategy(menu: gen::ConfigMenu) -> BoxedStrategy<LifeCase> {
    life_strategy_n(menu, 10)
}

pub fn life_strategy_n(menu: gen::ConfigMenu, max_steps: usize) -> BoxedStrategy<LifeCase> {
    gen::config(menu)
        .prop_flat_map(move |cfg| {
            // drawing calls are generated for both logical shapes; the interpreter of the case clips anyway,
            // so calls generated for the other shape simply act as partly out-of-bounds calls
            let (w, h) = (cfg.w as u32, cfg.h as u32);
            let op = prop_oneof![
                3 => gen::orient().prop_map(LOp::Orient),
                1 => (gen::orient(), 0u8..5, gen::orient()).prop_map(|(a, k, b)| LOp::FailedOrient(a, k, b)),
                4 => gen::op_in(w, h, false).prop_map(LOp::Draw),
                3 => gen::op_wild(h, w).prop_map(LOp::Draw),
                1 => any::<u8>().prop_map(LOp::Noise),
            ];
            (Just(cfg), proptest::collection::vec(op, 1..=max_steps))
        })
        .prop_map(|(cfg, ops)| {
            // set_pixel / set_pixels are only defined for in-bounds coordinates: turn those generated for
            // the other shape into DrawTarget calls
            let mut orient = cfg.orient;
            let mut unsure = false;
            let ops = ops
                .into_iter()
                .map(|op| match op {
                    LOp::Orient(o) => {
                        orient = o;
                        unsure = false;
                        LOp::Orient(o)
                    }
                    // (which of the two orientations ends up in force depends on whether the fault is reached;
                    // the draws that follow are clipped by the interpreter either way - see below)
                    LOp::FailedOrient(a, k, b) => {
                        unsure = true;
                        LOp::FailedOrient(a, k, b)
                    }
                    LOp::Draw(d) => {
                        let (mut lw, mut lh) = cfg.logical_size(orient);
                        if unsure {
                            // in bounds under either shape
                            lw = lw.min(lh);
                            lh = lw;
                        }
                        LOp::Draw(match d {
                            DrawOp::SetPixel { x, y, seed } if x as u32 >= lw || y as u32 >= lh => DrawOp::DrawIter { pts: vec![(x as i32, y as i32)], seed },
                            DrawOp::SetPixels { sx, sy, ex, ey, n, seed } if ex as u32 >= lw || ey as u32 >= lh => DrawOp::FillContiguous {
                                rect: Rect { x: sx as i32, y: sy as i32, w: (ex - sx) as u32 + 1, h: (ey - sy) as u32 + 1 },
                                len: StreamLen::Finite(n as u64),
                                seed,
                            },
                            d => d,
                        })
                    }
                    o => o,
                })
                .collect();
            LifeCase { cfg, ops }
        })
        .boxed()
}

pub fn all_transitions() -> Vec<OrientCase> {
    let mut out = Vec::new();
    for a in Orient::ALL {
        for b in Orient::ALL {
            for (bgr, rv, rh, geom) in [(false, false, false, (4, 3, 2, 1)), (true, true, true, (4, 3, 2, 1)), (true, false, true, (4, 3, 2, 1)), (false, true, false, (3, 3, 2, 1)), (false, false, false, (5, 1, 1, 2))] {
                let mut cfg = Config::full(crate::models::ModelId::E7x5, Transport::Rec8);
                // (3,3,2,1) and (5,1,1,2) are centred on both axes of the 7x5 framebuffer with different margins per axis
                cfg.w = geom.0;
                cfg.h = geom.1;
                cfg.ox = geom.2;
                cfg.oy = geom.3;
                cfg.orient = a;
                cfg.bgr = bgr;
                cfg.refresh_v = rv;
                cfg.refresh_h = rh;
                let (lw, lh) = cfg.logical_size(b);
                let mut ops = vec![DrawOp::Clear { seed: 3 }];
                for y in 0..lh as u16 {
                    for x in 0..lw as u16 {
                        ops.push(DrawOp::SetPixel { x, y, seed: (y as u32) * 16 + x as u32 });
                    }
                }
                ops.push(DrawOp::FillSolid { rect: Rect { x: -1, y: lh as i32 - 1, w: 3, h: 5 }, seed: 9 });
                ops.push(DrawOp::DrawIter { pts: vec![(0, 0), (lw as i32, 0), (lw as i32 - 1, lh as i32 - 1), (0, lh as i32)], seed: 11 });
                out.push(OrientCase { cfg, seq: vec![b], ops });
            }
        }
    }
    out
}

fn sig(_c: &OrientCase, reason: &str) -> String {
    let kind = if reason.contains("orientation() reports") {
        "orientation-not-updated"
    } else if reason.contains("size()") || reason.contains("bounding_box()") {
        "size-not-updated"
    } else if reason.contains("address mode") {
        "madctl"
    } else if reason.contains("frame memory differs") || reason.contains("expected cell") || reason.contains("although no drawn") {
        "placement"
    } else if reason.contains("panicked") {
        "panic"
    } else {
        "other"
    };
    format!("c10:{}", kind)
}

pub fn run(ctx: &Ctx) -> Report {
    let mut rep = Report::new("C10", "exploration");
    rep.assumptions = vec!["the twin display is built from scratch with the last orientation and otherwise identical options".into()];
    let mut sec = Section::new(
        &format!("all-transitions[{}]", ctx.variant),
        "all 8x8 (initial, new) orientation pairs x 5 option/geometry sets (4x3 window at (2,1), and the centred 3x3 at (2,1) and 5x1 at (1,2) of a 7x5 framebuffer), followed by clear + every pixel + clipped fill + clipped draw_iter; non-trivial = rotation parity or mirroring changes",
    );
    sec.exhaustive = true;
    run_enumerated(&mut sec, all_transitions(), ctx.workers, check, sig);
    rep.sections.push(sec);
    let mut sec = Section::new(
        &format!("generated[{}]", ctx.variant),
        "config x 1..5 orientations x 0..4 drawing calls (in-bounds and arbitrary coordinates) issued afterwards; oracle: twin built with the last orientation (orientation(), size(), bounding_box(), controller MADCTL, frame memory after the program) and the reference image",
    );
    run_generated(&mut sec, ctx.seed, ctx.cases(200_000, 3_000_000), ctx.workers, || strategy(gen::ConfigMenu::all_transports()), check, sig);
    rep.sections.push(sec);
    let mut sec = Section::new(
        &format!("life-cycle[{}]", ctx.variant),
        "config x history of 1..10 steps over {set_orientation, drawing call (in-bounds for one of the two logical shapes or arbitrary coordinates), sleep+wake / scroll / tearing}; the expected frame memory is accumulated in physical cells: every drawing call is placed and clipped according to the orientation in force when it was issued; every cell compared at the end; non-trivial = at least one drawing call after an effective orientation change",
    );
    run_generated(&mut sec, ctx.seed ^ 0x11fe, ctx.cases(200_000, 3_000_000), ctx.workers, || life_strategy(gen::ConfigMenu::all_transports()), check_life, |_, r| {
        format!("c10:life:{}", if r.contains("although no drawing") { "stray" } else if r.contains("puts") { "placement" } else { "other" })
    });
    rep.sections.push(sec);
    if ctx.tier == super::Tier::Thorough {
        let mut sec = Section::new(&format!("life-cycle-long[{}]", ctx.variant), "as life-cycle, histories of up to 40 steps");
        run_generated(&mut sec, ctx.seed ^ 0x22fe, ctx.cases(0, 300_000), ctx.workers, || life_strategy_n(gen::ConfigMenu::all_transports(), 40), check_life, |_, r| {
            format!("c10:life:{}", if r.contains("although no drawing") { "stray" } else if r.contains("puts") { "placement" } else { "other" })
        });
        rep.sections.push(sec);
    }
    rep
}

pub fn replay(section: &str, case: &Value) -> Result<(), String> {
    if section.starts_with("life-cycle") {
        return check_life(&de::<LifeCase>(case)?, &mut CaseInfo::default());
    }
    check(&de::<OrientCase>(case)?, &mut CaseInfo::default())
}

//! C08 — every pixel burst is framed by a well-formed window that it does not overrun.

use super::{c01, c02, de, Ctx};
use crate::exec::{check_framing, op_name, ProgCase, Session};
use crate::gen;
use crate::runner::*;
use proptest::prelude::*;
use serde_json::Value;

pub fn check(case: &ProgCase, info: &mut CaseInfo) -> Result<(), String> {
    let cfg = &case.cfg;
    let mut s = Session::start(cfg)?;
    let mut groups = 0;
    for op in &case.ops {
        // a panic / spurious error is C02's subject; here only what reached the bus is judged
        let obs = match s.call(op) {
            Ok(o) => o,
            Err(_) => {
                info.label("call-failed(ignored here)");
                return Ok(());
            }
        };
        check_framing(&obs, !matches!(op, crate::types::DrawOp::SetPixels { .. })).map_err(|e| format!("{}: {}", op_name(op), e))?;
        groups += obs.bursts.len();
        if obs.bursts.len() > 1 {
            info.label("multi-window-call");
        }
    }
    info.nontrivial = groups > 0 && cfg.non_default();
    info.label(cfg.transport.label());
    Ok(())
}

fn sig(c: &ProgCase, reason: &str) -> String {
    let last = c.ops.last().map(op_name).unwrap_or("none");
    let kind = if reason.contains("overruns") {
        "overrun"
    } else if reason.contains("outside") {
        "window-outside-fb"
    } else if reason.contains("start") {
        "start>end"
    } else if reason.contains("other than") {
        "grammar"
    } else {
        "other"
    };
    format!("c08:{}:{}", last, kind)
}

pub fn run(ctx: &Ctx) -> Report {
    let mut rep = Report::new("C08", "exploration");
    rep.assumptions = vec![
        "framebuffer extent under MV is (height, width); set_pixels with surplus colours wraps by documentation and is exempt from the no-overrun rule (everything else about its framing is judged)".into(),
    ];
    let mut sec = Section::new(
        &format!("in-bounds-programs[{}]", ctx.variant),
        "C01 programs (all entry points, in-bounds); per call the decoded trace must be (CASET(4) RASET(4) RAMWR pixels?)*, start<=end, end inside the framebuffer under the current address mode, whole pixels, burst <= window area; non-trivial = >=1 group and non-default orientation/offset",
    );
    run_generated(&mut sec, ctx.seed, ctx.cases(200_000, 3_000_000), ctx.workers, || c01::strategy(gen::ConfigMenu::all_transports(), 8), check, sig);
    rep.sections.push(sec);
    let mut sec = Section::new(&format!("wild-programs[{}]", ctx.variant), "C02 programs (arbitrary coordinates), same invariant");
    run_generated(&mut sec, ctx.seed ^ 8, ctx.cases(200_000, 3_000_000), ctx.workers, || c02::strategy(gen::ConfigMenu::all_transports(), 5), check, sig);
    rep.sections.push(sec);
    super::history_section(&mut rep, ctx, ctx.seed ^ 0x68, ctx.cases(100_000, 2_000_000), || c01::strategy(gen::ConfigMenu::all_transports(), 6), check, sig);
    // a set_orientation that fails at its first low-level operation leaves the controller's address mode
    // untouched; the windows of the drawing calls that follow must still fit the framebuffer as the
    // controller sees it
    let mut sec = Section::new(
        &format!("after-failed-set_orientation[{}]", ctx.variant),
        "as after-history, then a set_orientation to a generated orientation whose first pin / bus operation fails (nothing of it reaches the controller), then the judged in-bounds drawing calls; same framing invariant against the address mode the controller actually holds; non-trivial = >=1 group, non-default configuration and the failed call asked for another orientation",
    );
    run_generated(
        &mut sec,
        ctx.seed ^ 0x6f,
        ctx.cases(100_000, 2_000_000),
        ctx.workers,
        || {
            (gen::history(c01::strategy(gen::ConfigMenu::all_transports(), 4)), gen::orient())
                .prop_map(|(mut c, o)| {
                    c.hist.failed = Some(o);
                    c
                })
                .boxed()
        },
        |c, info| {
            let r = crate::exec::with_history(&c.hist, || check(&c.prog, info));
            if c.hist.failed == Some(c.prog.cfg.orient) {
                info.nontrivial = false;
            } else if c.hist.failed.map(|o| o.vertical()) != Some(c.prog.cfg.orient.vertical()) {
                info.label("failed-change:axes-exchanged");
            }
            r
        },
        |c, r| format!("failed-orient:{}", sig(&c.prog, r)),
    );
    rep.sections.push(sec);
    rep
}

pub fn replay(section: &str, case: &Value) -> Result<(), String> {
    if section.starts_with("after-history") || section.starts_with("after-failed-set_orientation") {
        return super::replay_history(case, check);
    }
    check(&de::<ProgCase>(case)?, &mut CaseInfo::default())
}

//! C02 — out-of-bounds drawing is discarded: no panic, no write outside the panel window.

use super::{de, Ctx, Tier};
use crate::exec::{op_name, ProgCase, Session};
use crate::gen;
use crate::runner::*;
use crate::types::*;
use proptest::prelude::*;
use serde_json::Value;

/// (in-bounds elements, out-of-bounds elements) of one call, by the property's definition
pub fn in_out(op: &DrawOp, lw: u32, lh: u32) -> (u64, u64) {
    let inside = |x: i64, y: i64| x >= 0 && y >= 0 && x < lw as i64 && y < lh as i64;
    match op {
        DrawOp::SetPixel { x, y, .. } => {
            if inside(*x as i64, *y as i64) {
                (1, 0)
            } else {
                (0, 1)
            }
        }
        DrawOp::SetPixels { .. } => (1, 0),
        DrawOp::DrawIter { pts, .. } => {
            let i = pts.iter().filter(|(x, y)| inside(*x as i64, *y as i64)).count() as u64;
            (i, pts.len() as u64 - i)
        }
        DrawOp::FillContiguous { rect, .. } | DrawOp::FillSolid { rect, .. } => {
            let x0 = (rect.x as i64).max(0);
            let y0 = (rect.y as i64).max(0);
            let x1 = (rect.x as i64 + rect.w as i64).min(lw as i64);
            let y1 = (rect.y as i64 + rect.h as i64).min(lh as i64);
            let vis = if x1 > x0 && y1 > y0 { ((x1 - x0) * (y1 - y0)) as u64 } else { 0 };
            (vis, rect.area() - vis)
        }
        DrawOp::Clear { .. } => (lw as u64 * lh as u64, 0),
    }
}

pub fn check(case: &ProgCase, info: &mut CaseInfo) -> Result<(), String> {
    let cfg = &case.cfg;
    let mut s = Session::start(cfg)?;
    let (lw, lh) = cfg.logical_size(cfg.orient);
    let mut mixed = false;
    for op in &case.ops {
        let (i, o) = in_out(op, lw, lh);
        if i > 0 && o > 0 {
            mixed = true;
            info.label(match op {
                DrawOp::DrawIter { .. } => "mixed-draw_iter",
                DrawOp::FillContiguous { .. } => "mixed-fill_contiguous",
                DrawOp::FillSolid { .. } => "mixed-fill_solid",
                _ => "mixed-other",
            });
        } else if i == 0 && o > 0 {
            info.label("all-outside");
        }
        let obs = s.call(op)?;
        if let Some(e) = obs.decode_errors.first() {
            return Err(format!("bus decode error in {}: {}", op_name(op), e));
        }
        // compare after every call: the offending call is then the last one of the shrunk case
        s.compare().map_err(|e| format!("after {}: {}", op_name(op), e))?;
    }
    info.nontrivial = mixed;
    info.label(cfg.transport.label());
    Ok(())
}

pub fn strategy(menu: gen::ConfigMenu, max_ops: usize) -> BoxedStrategy<ProgCase> {
    gen::config(menu)
        .prop_flat_map(move |cfg| {
            let (lw, lh) = cfg.logical_size(cfg.orient);
            (Just(cfg), proptest::collection::vec(gen::op_wild(lw, lh), 1..=max_ops))
        })
        .prop_map(|(cfg, ops)| ProgCase { cfg, ops })
        .boxed()
}

pub fn sig(c: &ProgCase, reason: &str) -> String {
    let last = c.ops.last().map(op_name).unwrap_or("none");
    let kind = if reason.contains("panicked") {
        "panic"
    } else if reason.contains("although no drawn") || reason.contains("cells written") {
        "stray-write"
    } else if reason.contains("expected cell") {
        "missing-or-wrong"
    } else {
        "other"
    };
    format!("c02:{}:{}", last, kind)
}

pub fn run(ctx: &Ctx) -> Report {
    let mut rep = Report::new("C02", "exploration");
    rep.assumptions = vec![
        "rectangles are valid embedded-graphics rectangles: corners computable in i32, fewer than 2^32 points".into(),
        "the rig's bus never fails in this check, so any Err is an error the bus did not produce".into(),
    ];
    let mut sec = Section::new(
        &format!("wild-programs[{}]", ctx.variant),
        "config x 1..5 DrawTarget calls with arbitrary coordinates (draw_iter streams mixing in-bounds points with -1, w, h, 65535, 65536+k, i32::MIN/MAX; rectangles of every position class incl. huge and zero-sized; finite/short/infinite colour streams); oracle = clipped reference image, every cell compared after every call; non-trivial = some call mixes in-bounds and out-of-bounds elements",
    );
    let n = ctx.cases(350_000, 6_000_000);
    run_generated(&mut sec, ctx.seed, n, ctx.workers, || strategy(gen::ConfigMenu::all_transports(), 5), check, sig);
    rep.sections.push(sec);
    super::history_section(&mut rep, ctx, ctx.seed ^ 0x62, ctx.cases(100_000, 2_000_000), || strategy(gen::ConfigMenu::all_transports(), 4), check, sig);
    if ctx.tier == Tier::Thorough {
        let mut sec = Section::new(&format!("wild-programs-pin-level[{}]", ctx.variant), "as wild-programs, through SpiInterface / ParallelInterface");
        run_generated(&mut sec, ctx.seed ^ 0x52, ctx.cases(0, 300_000), ctx.workers, || strategy(gen::ConfigMenu::pin_level(), 4), check, sig);
        rep.sections.push(sec);
        let mut sec = Section::new(&format!("long-wild-programs[{}]", ctx.variant), "as wild-programs, up to 25 calls per display");
        run_generated(&mut sec, ctx.seed ^ 0x53, ctx.cases(0, 300_000), ctx.workers, || strategy(gen::ConfigMenu::all_transports(), 25), check, sig);
        rep.sections.push(sec);
    }
    rep
}

pub fn replay(section: &str, case: &Value) -> Result<(), String> {
    if section.starts_with("after-history") {
        return super::replay_history(case, check);
    }
    check(&de::<ProgCase>(case)?, &mut CaseInfo::default())
}

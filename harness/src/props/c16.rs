//! C16 — vertical scroll set-up always spans the framebuffer height and never panics.

use super::{de, Ctx, Tier};
use crate::dut::{build, new_world, DutErr};
use crate::models::ModelId;
use crate::panel::Tr;
use crate::runner::*;
use crate::types::*;
use embedded_graphics_core::pixelcolor::Rgb565;
use mipidsi::interface::{Interface, InterfaceKind};
use mipidsi::models::Model;
use proptest::prelude::*;
use serde::{Deserialize, Serialize};
use serde_json::Value;

#[derive(Clone, Debug, PartialEq, Eq, Hash, Serialize, Deserialize)]
pub struct ScrollCase {
    pub model: ModelId,
    pub orient: Orient,
    pub top: u16,
    pub bottom: u16,
    pub offset: u16,
    /// Some(n): through the real SpiInterface with an n-byte staging buffer (commands longer than the buffer)
    #[serde(default)]
    pub spi_buf: Option<u8>,
    /// use the full framebuffer as display size (otherwise a 16x16 window)
    #[serde(default)]
    pub full_size: bool,
    /// bit 0 BGR, bit 1 inverted, bit 2 bottom-to-top refresh, bit 3 right-to-left refresh, bit 4 reset pin
    #[serde(default)]
    pub opts: u8,
}

/// the scroll-area oracle, in u32
fn judge(rows: u32, top: u16, bottom: u16, tfa: u16, vsa: u16, bfa: u16) -> Result<(), String> {
    let sum = tfa as u32 + vsa as u32 + bfa as u32;
    if sum != rows {
        return Err(format!(
            "scroll region ({}, {}) on {} rows: sent TFA={} VSA={} BFA={} which add up to {}, not {}",
            top, bottom, rows, tfa, vsa, bfa, sum, rows
        ));
    }
    if top as u32 + bottom as u32 <= rows && (tfa != top || bfa != bottom) {
        return Err(format!(
            "scroll region ({}, {}) fits into {} rows but was sent as TFA={} BFA={}",
            top, bottom, rows, tfa, bfa
        ));
    }
    Ok(())
}

pub fn check(c: &ScrollCase, info: &mut CaseInfo) -> Result<(), String> {
    let transport = match c.spi_buf {
        Some(n) if crate::gen::supported(c.model, Kind::Serial) => Transport::Spi { buf: (n as u32).max((c.model.bits() + 7) / 8) },
        _ => Transport::Rec8,
    };
    let mut cfg = Config::full(c.model, transport);
    cfg.orient = c.orient;
    cfg.bgr = c.opts & 1 != 0;
    cfg.invert = c.opts & 2 != 0;
    cfg.refresh_v = c.opts & 4 != 0;
    cfg.refresh_h = c.opts & 8 != 0;
    cfg.reset_pin = c.opts & 16 != 0;
    let (fw, fh) = c.model.fb();
    // the display size is irrelevant for scrolling (the region is relative to the framebuffer)
    if !(c.full_size && (fw as u32 * fh as u32) < (1 << 22)) {
        cfg.w = fw.min(16);
        cfg.h = fh.min(16);
    }
    let w = new_world(&cfg);
    let mut d = build(&cfg, &w).map_err(|e| format!("init failed: {:?}", e))?;
    w.borrow_mut().panel.take_trace();
    let rows = fh as u32;
    match d.set_vertical_scroll_region(c.top, c.bottom) {
        Ok(()) => {}
        Err(DutErr::Panic(m)) => return Err(format!("set_vertical_scroll_region({}, {}) panicked: {}", c.top, c.bottom, m)),
        Err(e) => return Err(format!("set_vertical_scroll_region returned {:?}", e)),
    }
    let trace = w.borrow_mut().panel.take_trace();
    if let Some(e) = w.borrow_mut().panel.take_errors().first() {
        return Err(format!("malformed traffic: {}", e));
    }
    match &trace[..] {
        [Tr::Cmd { op: 0x33, args, .. }] if args.len() == 6 => {
            let tfa = u16::from_be_bytes([args[0], args[1]]);
            let vsa = u16::from_be_bytes([args[2], args[3]]);
            let bfa = u16::from_be_bytes([args[4], args[5]]);
            judge(rows, c.top, c.bottom, tfa, vsa, bfa)?;
        }
        t => return Err(format!("expected exactly one scroll-area definition (0x33, 6 bytes), saw {:?}", t)),
    }
    match d.set_vertical_scroll_offset(c.offset) {
        Ok(()) => {}
        Err(e) => return Err(format!("set_vertical_scroll_offset returned {:?}", e)),
    }
    let trace = w.borrow_mut().panel.take_trace();
    match &trace[..] {
        [Tr::Cmd { op: 0x37, args, .. }] if args[..] == c.offset.to_be_bytes() => {}
        t => return Err(format!("set_vertical_scroll_offset({}) sent {:?}", c.offset, t)),
    }
    // every call sends its command: the same offset again, after a new region, and a different one
    for (i, off) in [c.offset, c.offset, c.offset ^ 0x0100].into_iter().enumerate() {
        if i == 1 {
            d.set_vertical_scroll_region(c.bottom, c.top).map_err(|e| format!("set_vertical_scroll_region returned {:?}", e))?;
            w.borrow_mut().panel.take_trace();
        }
        d.set_vertical_scroll_offset(off).map_err(|e| format!("set_vertical_scroll_offset returned {:?}", e))?;
        let trace = w.borrow_mut().panel.take_trace();
        match &trace[..] {
            [Tr::Cmd { op: 0x37, args, .. }] if args[..] == off.to_be_bytes() => {}
            t => return Err(format!("repeated call #{}: set_vertical_scroll_offset({}) sent {:?}", i + 2, off, t)),
        }
    }
    if let Some(e) = w.borrow_mut().panel.take_errors().first() {
        return Err(format!("malformed traffic: {}", e));
    }
    if c.spi_buf.is_some() {
        info.label("spi-small-buffer");
    }
    let s = c.top as u32 + c.bottom as u32;
    if s + 1 >= rows && s <= rows + 1 {
        info.label("sum-near-rows");
        info.nontrivial = true;
    }
    if s > 65535 {
        info.label("sum>65535");
        info.nontrivial = true;
    }
    Ok(())
}

const MODELS: &[ModelId] = &[
    ModelId::GC9107,        // 160
    ModelId::ST7735s,       // 162
    ModelId::GC9A01,        // 240
    ModelId::ILI9342CRgb666, // 240
    ModelId::ST7789,        // 320
    ModelId::ILI9341Rgb666, // 320
    ModelId::ILI9488Rgb565, // 480
    ModelId::ST7796,        // 480
    ModelId::RM67162,       // 536
    ModelId::E1x1,
    ModelId::EWide, // height 1
    ModelId::ETall, // height 65535
    ModelId::EHuge,
    ModelId::E7x5,
];

fn biased(rows: u16) -> BoxedStrategy<u16> {
    let pts: Vec<u32> = vec![0, 1, rows as u32, rows as u32 / 2, 65535 - rows as u32, 65535, 32768, 65536 - rows as u32];
    let near = (proptest::sample::select(pts), -2i64..=2).prop_map(|(p, d)| (p as i64 + d).clamp(0, 65535) as u16);
    prop_oneof![5 => near, 2 => 0..=rows, 1 => any::<u16>()].boxed()
}

pub fn strategy() -> BoxedStrategy<ScrollCase> {
    proptest::sample::select(MODELS.to_vec())
        .prop_flat_map(|model| {
            let rows = model.fb().1;
            (Just(model), crate::gen::orient(), biased(rows), biased(rows), any::<u16>(), 0u8..6, -2i64..=2, proptest::option::weighted(0.25, 2u8..=9), any::<bool>(), 0u8..32)
        })
        .prop_map(|(model, orient, top, b0, offset, mode, d, spi_buf, full_size, opts)| {
            let rows = model.fb().1 as i64;
            // make top+bottom land on rows+d or on 65536+d in a third of the cases
            let bottom = match mode {
                0 | 1 => (rows - top as i64 + d).clamp(0, 65535) as u16,
                2 => (65536 - top as i64 + d).clamp(0, 65535) as u16,
                _ => b0,
            };
            ScrollCase { model, orient, top, bottom, offset, spi_buf, full_size, opts }
        })
        .boxed()
}

fn grid() -> Vec<ScrollCase> {
    let mut out = Vec::new();
    for &model in MODELS {
        let rows = model.fb().1 as i64;
        let mut vals: Vec<u16> = Vec::new();
        for base in [0i64, rows / 2, rows, 65535 - rows, 32768, 65535, 65536 - rows] {
            for d in -3..=3 {
                let v = base + d;
                if (0..=65535).contains(&v) {
                    vals.push(v as u16);
                }
            }
        }
        vals.sort();
        vals.dedup();
        for &t in &vals {
            for &b in &vals {
                out.push(ScrollCase { model, orient: Orient::ALL[(t as usize + b as usize) % 8], top: t, bottom: b, offset: t ^ b.rotate_left(3), spi_buf: if (t ^ b) % 5 == 0 { Some(2 + (t % 6) as u8) } else { None }, full_size: (t as u32 + b as u32) % 3 == 0, opts: ((t as u32 * 7 + b as u32 * 13) % 32) as u8 });
            }
        }
    }
    out
}

// ---- lean path for the exhaustive sweep: no Rc, no trace - one struct remembering the last command

pub struct LeanIface {
    pub last_op: u8,
    pub last_args: [u8; 16],
    pub last_len: usize,
    pub count: u64,
}
impl Interface for LeanIface {
    type Word = u8;
    type Error = core::convert::Infallible;
    const KIND: InterfaceKind = InterfaceKind::Parallel8Bit;
    #[inline]
    fn send_command(&mut self, command: u8, args: &[u8]) -> Result<(), Self::Error> {
        self.last_op = command;
        self.last_len = args.len();
        let n = args.len().min(16);
        self.last_args[..n].copy_from_slice(&args[..n]);
        self.count += 1;
        Ok(())
    }
    fn send_pixels<const N: usize>(&mut self, _p: impl IntoIterator<Item = [u8; N]>) -> Result<(), Self::Error> {
        Ok(())
    }
    fn send_repeated_pixel<const N: usize>(&mut self, _p: [u8; N], _c: u32) -> Result<(), Self::Error> {
        Ok(())
    }
}
pub struct NoDelay;
impl embedded_hal::delay::DelayNs for NoDelay {
    fn delay_ns(&mut self, _ns: u32) {}
}

/// all (top, bottom) pairs with top in `tops`, for one model type; returns (evaluations, nontrivial, first failure)
fn sweep<M: Model<ColorFormat = Rgb565>>(m: M, tops: std::ops::Range<u32>) -> (u64, u64, Option<(u16, u16, String)>) {
    let di = LeanIface { last_op: 0, last_args: [0; 16], last_len: 0, count: 0 };
    let (fw, fh) = M::FRAMEBUFFER_SIZE;
    let mut d = match mipidsi::Builder::new(m, di).display_size(fw.min(16), fh.min(16)).init(&mut NoDelay) {
        Ok(d) => d,
        Err(_) => return (0, 0, Some((0, 0, "init failed".into()))),
    };
    let rows = fh as u32;
    let mut evals = 0u64;
    let mut nontrivial = 0u64;
    for top in tops {
        for bottom in 0..=65535u32 {
            let (top, bottom) = (top as u16, bottom as u16);
            let before = unsafe { d.dcs() }.count;
            let r = std::panic::catch_unwind(std::panic::AssertUnwindSafe(|| d.set_vertical_scroll_region(top, bottom)));
            if r.is_err() {
                return (evals, nontrivial, Some((top, bottom, format!("set_vertical_scroll_region({}, {}) panicked", top, bottom))));
            }
            let di = unsafe { d.dcs() };
            evals += 1;
            if di.count != before + 1 || di.last_op != 0x33 || di.last_len != 6 {
                return (evals, nontrivial, Some((top, bottom, format!("expected one 0x33 with 6 bytes, saw op {:#x} len {} ({} commands)", di.last_op, di.last_len, di.count - before))));
            }
            let a = di.last_args;
            let (tfa, vsa, bfa) = (u16::from_be_bytes([a[0], a[1]]), u16::from_be_bytes([a[2], a[3]]), u16::from_be_bytes([a[4], a[5]]));
            if let Err(e) = judge(rows, top, bottom, tfa, vsa, bfa) {
                return (evals, nontrivial, Some((top, bottom, e)));
            }
            let s = top as u32 + bottom as u32;
            if (s + 1 >= rows && s <= rows + 1) || s > 65535 {
                nontrivial += 1;
            }
        }
    }
    (evals, nontrivial, None)
}

fn sweep_model(id: ModelId, tops: std::ops::Range<u32>) -> (u64, u64, Option<(u16, u16, String)>) {
    use crate::models::Ext;
    use mipidsi::models as mm;
    match id {
        ModelId::GC9107 => sweep(mm::GC9107, tops),
        ModelId::ST7735s => sweep(mm::ST7735s, tops),
        ModelId::GC9A01 => sweep(mm::GC9A01, tops),
        ModelId::ST7789 => sweep(mm::ST7789, tops),
        ModelId::ILI9488Rgb565 => sweep(mm::ILI9488Rgb565, tops),
        ModelId::RM67162 => sweep(mm::RM67162, tops),
        ModelId::EWide => sweep(Ext::<65535, 1, Rgb565>::default(), tops),
        ModelId::ETall => sweep(Ext::<1, 65535, Rgb565>::default(), tops),
        _ => (0, 0, None),
    }
}

fn sig(_c: &ScrollCase, reason: &str) -> String {
    let kind = if reason.contains("panicked") {
        "panic"
    } else if reason.contains("add up") {
        "sum!=rows"
    } else if reason.contains("fits into") {
        "not-passed-through"
    } else if reason.contains("offset") {
        "offset"
    } else {
        "other"
    };
    format!("c16:{}", kind)
}

pub fn run(ctx: &Ctx) -> Report {
    let mut rep = Report::new("C16", "exploration");
    rep.assumptions = vec!["framebuffer heights: every distinct built-in height {160,162,240,320,480,536} and external heights {1,5,65535}".into()];
    let mut sec = Section::new(
        &format!("boundary-grid[{}]", ctx.variant),
        "per model: (top,bottom) over all pairs of values within +-3 of {0, rows/2, rows, 65535-rows, 32768, 65535, 65536-rows}; orientation cycles; oracle: exactly one 0x33 with six bytes, TFA+VSA+BFA == rows in u32, TFA/BFA passed through when top+bottom <= rows, no panic; 0x37 carries the offset big-endian; non-trivial = top+bottom within +-1 of rows or > 65535",
    );
    sec.exhaustive = true;
    run_enumerated(&mut sec, grid(), ctx.workers, check, sig);
    rep.sections.push(sec);

    let mut sec = Section::new(&format!("generated[{}]", ctx.variant), "model x orientation x colour/inversion/refresh options x reset pin x (top,bottom,offset) in u16^3, boundary biased, a third with top+bottom forced to rows+-2 or 65536+-2");
    run_generated(&mut sec, ctx.seed, ctx.cases(500_000, 10_000_000), ctx.workers, strategy, check, sig);
    rep.sections.push(sec);

    // all 65536 offsets
    let mut sec = Section::new(&format!("all-offsets[{}]", ctx.variant), "set_vertical_scroll_offset for all 65536 offsets (ST7789): 0x37 with the offset big-endian");
    sec.exhaustive = true;
    {
        let cfg = Config::full(ModelId::ST7789, Transport::Rec8);
        let w = new_world(&cfg);
        match build(&cfg, &w) {
            Ok(mut d) => {
                w.borrow_mut().panel.take_trace();
                for off in 0..=65535u16 {
                    let r = d.set_vertical_scroll_offset(off);
                    let tr = w.borrow_mut().panel.take_trace();
                    sec.stats.evaluations += 1;
                    let ok = r.is_ok() && matches!(&tr[..], [Tr::Cmd { op: 0x37, args, .. }] if args[..] == off.to_be_bytes());
                    if off.to_be_bytes()[0] != off.to_be_bytes()[1] {
                        sec.stats.nontrivial.insert(off as u64);
                    }
                    if !ok && sec.violations.is_empty() {
                        sec.violations.push(Violation {
                            reason: format!("set_vertical_scroll_offset({}) sent {:?} / returned {:?}", off, tr, r),
                            case: serde_json::to_value(ScrollCase { model: ModelId::ST7789, orient: Orient::ALL[0], top: 0, bottom: 0, offset: off, spi_buf: None, full_size: false, opts: 0 }).unwrap(),
                            signature: "c16:offset".into(),
                        });
                    }
                }
                sec.stats.samples.push(serde_json::json!({"offset": 0x1234, "expected_bytes": [0x12, 0x34]}));
            }
            Err(e) => sec.violations.push(Violation { reason: format!("init failed: {:?}", e), case: Value::Null, signature: "c16:init".into() }),
        }
    }
    rep.sections.push(sec);

    // exhaustive sweep of all 2^32 pairs on the lean path (thorough), a band of tops in quick
    let sweep_models = [ModelId::GC9107, ModelId::ST7735s, ModelId::GC9A01, ModelId::ST7789, ModelId::ILI9488Rgb565, ModelId::RM67162, ModelId::EWide, ModelId::ETall];
    let full = ctx.tier == Tier::Thorough;
    let mut sec = Section::new(
        &format!("pair-sweep[{}]", ctx.variant),
        if full {
            "all 2^32 (top,bottom) pairs for every distinct framebuffer height, through a real Display on a lean Interface; same oracle"
        } else {
            "quick: all 65536 bottoms for 64 top values per height (0..16, rows-8..rows+8, 65520..65535 and multiples); same oracle"
        },
    );
    sec.exhaustive = full;
    let results: std::sync::Mutex<Vec<(ModelId, u64, u64, Option<(u16, u16, String)>)>> = std::sync::Mutex::new(Vec::new());
    std::thread::scope(|sc| {
        for &m in &sweep_models {
            let rows = m.fb().1 as u32;
            let ranges: Vec<std::ops::Range<u32>> = if full {
                let parts = 4u32;
                (0..parts).map(|p| (p * 16384)..((p + 1) * 16384)).collect()
            } else {
                let mut v = vec![0..16u32, 65520..65536];
                let lo = rows.saturating_sub(8);
                let hi = (rows + 8).min(65520);
                if lo >= 16 && hi > lo {
                    v.push(lo..hi);
                }
                v.push(32760..32776);
                v
            };
            for r in ranges {
                let results = &results;
                sc.spawn(move || {
                    let (e, n, f) = sweep_model(m, r);
                    results.lock().unwrap().push((m, e, n, f));
                });
            }
        }
    });
    for (m, e, n, f) in results.into_inner().unwrap() {
        sec.stats.evaluations += e;
        // distinct by construction: every (model, top, bottom) is visited once
        for i in 0..n.min(1 << 20) {
            sec.stats.nontrivial.insert(crate::runner::splitmix(i ^ crate::runner::hash_str(m.name())));
        }
        *sec.stats.labels.entry(format!("pairs-{}", m.name())).or_insert(0) += e;
        if let Some((t, b, why)) = f {
            if sec.violations.len() < 3 {
                sec.violations.push(Violation {
                    reason: why,
                    case: serde_json::to_value(ScrollCase { model: m, orient: Orient::ALL[0], top: t, bottom: b, offset: 0, spi_buf: None, full_size: false, opts: 0 }).unwrap(),
                    signature: "c16:sweep".into(),
                });
            }
        }
    }
    sec.stats.samples.push(serde_json::json!({"model": "ST7789", "top": 65535, "bottom": 2}));
    rep.sections.push(sec);
    rep
}

pub fn replay(_section: &str, case: &Value) -> Result<(), String> {
    check(&de::<ScrollCase>(case)?, &mut CaseInfo::default())
}

//! C09 — init accepts exactly the windows that fit, and rejects before touching hardware.

use super::{de, Ctx};
use crate::dut::{build, new_world, DutErr};
use crate::models::{ModelId, ALL_MODELS};
use crate::runner::*;
use crate::types::*;
use proptest::prelude::*;
use serde::{Deserialize, Serialize};
use serde_json::Value;

#[derive(Clone, Debug, PartialEq, Eq, Hash, Serialize, Deserialize)]
pub struct InitCase {
    pub model: ModelId,
    pub w: u16,
    pub h: u16,
    pub ox: u16,
    pub oy: u16,
    pub reset_pin: bool,
    pub orient: Orient,
    pub pin_level: bool,
}

#[derive(Debug, PartialEq, Eq, Clone, Copy)]
enum Expect {
    Ok,
    Size,
    Offset,
}

/// reference predicate, in u64
fn expect(c: &InitCase) -> Expect {
    let (fw, fh) = c.model.fb();
    let (fw, fh, w, h, ox, oy) = (fw as u64, fh as u64, c.w as u64, c.h as u64, c.ox as u64, c.oy as u64);
    if w == 0 || h == 0 || w > fw || h > fh {
        Expect::Size
    } else if ox + w > fw || oy + h > fh {
        Expect::Offset
    } else {
        Expect::Ok
    }
}

pub fn check(c: &InitCase, info: &mut CaseInfo) -> Result<(), String> {
    let transport = if c.pin_level {
        if c.model == ModelId::ILI9486Rgb565 {
            Transport::Par8
        } else {
            Transport::Spi { buf: 16 }
        }
    } else {
        Transport::Rec8
    };
    let mut cfg = Config::full(c.model, transport);
    cfg.w = c.w;
    cfg.h = c.h;
    cfg.ox = c.ox;
    cfg.oy = c.oy;
    cfg.reset_pin = c.reset_pin;
    cfg.orient = c.orient;
    let w = new_world(&cfg);
    let r = build(&cfg, &w);
    let e = expect(c);
    let wb = w.borrow();
    let touched = wb.ops != 0 || wb.delay_calls != 0 || wb.now_ns != 0 || wb.panel.cmd_count != 0 || !wb.rst_log.is_empty();
    let (fw, fh) = c.model.fb();
    // classification: near an acceptance boundary or beyond 16 bits
    let near = |v: u64, b: u64| v + 1 >= b && v <= b + 1;
    let sx = c.ox as u64 + c.w as u64;
    let sy = c.oy as u64 + c.h as u64;
    if near(c.w as u64, fw as u64) || near(c.h as u64, fh as u64) || near(sx, fw as u64) || near(sy, fh as u64) || c.w <= 1 || c.h <= 1 {
        info.label("near-boundary");
        info.nontrivial = true;
    }
    if sx > 65535 || sy > 65535 {
        info.label("sum>65535");
        info.nontrivial = true;
    }
    match (&r, e) {
        (Ok(d), Expect::Ok) => {
            info.label("accepted");
            let (lw, lh) = cfg.logical_size(cfg.orient);
            if d.size() != (lw, lh) {
                return Err(format!("accepted window {}x{} reports size {:?}", c.w, c.h, d.size()));
            }
            Ok(())
        }
        (Err(DutErr::InvalidDisplaySize), Expect::Size) | (Err(DutErr::InvalidDisplayOffset), Expect::Offset) => {
            info.label(if e == Expect::Size { "rejected-size" } else { "rejected-offset" });
            if touched {
                return Err(format!(
                    "rejected configuration, but hardware was touched first: {} pin/bus operations, {} delay calls, {} commands, reset pin events {:?}",
                    wb.ops, wb.delay_calls, wb.panel.cmd_count, wb.rst_log
                ));
            }
            Ok(())
        }
        (Ok(_), _) => Err(format!(
            "init accepted size ({},{}) offset ({},{}) on a {}x{} framebuffer; expected {:?}",
            c.w, c.h, c.ox, c.oy, fw, fh, e
        )),
        (Err(err), _) => Err(format!(
            "init of size ({},{}) offset ({},{}) on a {}x{} framebuffer returned {:?}; expected {:?}",
            c.w, c.h, c.ox, c.oy, fw, fh, err, e
        )),
    }
}

/// u16 biased around 0, f, 65535-f, 65535
fn around(f: u16) -> BoxedStrategy<u16> {
    let pts: Vec<u32> = vec![0, 1, 2, f as u32, 65535 - f as u32, 65535, 65536 - f as u32, 32768, (f as u32) / 2];
    let near = (proptest::sample::select(pts), -2i64..=2).prop_map(|(p, d)| (p as i64 + d).clamp(0, 65535) as u16);
    prop_oneof![
        6 => near,
        2 => 0..=f,
        1 => any::<u16>(),
    ]
    .boxed()
}

pub fn strategy() -> BoxedStrategy<InitCase> {
    proptest::sample::select(ALL_MODELS.to_vec())
        .prop_flat_map(|model| {
            let (fw, fh) = model.fb();
            // offsets that make ox+w land near fw (and wrap candidates near 65536)
            (Just(model), around(fw), around(fh), around(fw), around(fh), any::<bool>(), crate::gen::orient(), 0u8..8, any::<u16>(), any::<u16>())
        })
        .prop_map(|(model, w, h, ox0, oy0, reset_pin, orient, mode, r1, r2)| {
            let (fw, fh) = model.fb();
            // half of the cases: derive the offset from the size so that ox+w is within +-2 of fw or of 65536+k
            let (ox, oy) = match mode {
                0 | 1 => ((fw as i64 - w as i64 + (r1 % 5) as i64 - 2).clamp(0, 65535) as u16, (fh as i64 - h as i64 + (r2 % 5) as i64 - 2).clamp(0, 65535) as u16),
                2 => ((65536i64 - w as i64 + (r1 % 4) as i64).clamp(0, 65535) as u16, oy0),
                3 => (ox0, (65536i64 - h as i64 + (r2 % 4) as i64).clamp(0, 65535) as u16),
                _ => (ox0, oy0),
            };
            InitCase { model, w, h, ox, oy, reset_pin, orient, pin_level: r1 % 7 == 0 }
        })
        .boxed()
}

fn small_scope() -> Vec<InitCase> {
    // framebuffer 2x3: every value in 0..=5 plus wrap values
    let vals: Vec<u16> = vec![0, 1, 2, 3, 4, 5, 65533, 65534, 65535];
    let mut out = Vec::new();
    for &w in &vals {
        for &h in &vals {
            for &ox in &vals {
                for &oy in &vals {
                    for reset_pin in [false, true] {
                        out.push(InitCase { model: ModelId::E2x3, w, h, ox, oy, reset_pin, orient: Orient { rot: 0, mirrored: false }, pin_level: false });
                    }
                }
            }
        }
    }
    out
}

fn sig(_c: &InitCase, reason: &str) -> String {
    let kind = if reason.contains("accepted size") {
        "wrongly-accepted"
    } else if reason.contains("touched") {
        "touched-before-reject"
    } else if reason.contains("returned") {
        "wrong-error-or-rejected"
    } else {
        "other"
    };
    format!("c09:{}", kind)
}

pub fn run(ctx: &Ctx) -> Report {
    let mut rep = Report::new("C09", "exploration");
    rep.assumptions = vec!["framebuffer sizes from the model menu (14 built-in + external 1x1 .. 65535x65535)".into()];
    let mut sec = Section::new(
        &format!("small-scope[{}]", ctx.variant),
        "framebuffer 2x3: (w,h,ox,oy) over {0..5, 65533..65535}^4 x reset pin yes/no, all enumerated; non-trivial = within +-1 of an acceptance boundary or offset+size > 65535",
    );
    sec.exhaustive = true;
    run_enumerated(&mut sec, small_scope(), ctx.workers, check, sig);
    rep.sections.push(sec);
    let mut sec = Section::new(
        &format!("generated[{}]", ctx.variant),
        "model menu x (w,h,ox,oy) in u16^4 biased around 0, FB, 65535-FB, 65535 and with offset derived so that offset+size is within +-2 of FB or of 65536 x reset pin x orientation; oracle: u64 reference predicate, error kind, and on rejection zero pin/bus/delay activity",
    );
    run_generated(&mut sec, ctx.seed, ctx.cases(1_000_000, 30_000_000), ctx.workers, strategy, check, sig);
    rep.sections.push(sec);
    rep
}

pub fn replay(_section: &str, case: &Value) -> Result<(), String> {
    check(&de::<InitCase>(case)?, &mut CaseInfo::default())
}

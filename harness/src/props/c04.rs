//! C04 — fill_contiguous keeps colour k on point k under any clipping (host part).

use super::{de, Ctx};
use crate::exec::{ProgCase, Session};
use crate::gen;
use crate::runner::*;
use crate::types::*;
use proptest::prelude::*;
use serde_json::Value;

/// index (row-major, in the whole rectangle) of the first visible point, if any
pub fn first_visible_index(rect: &Rect, lw: u32, lh: u32) -> Option<u64> {
    let x0 = (rect.x as i64).max(0);
    let y0 = (rect.y as i64).max(0);
    let x1 = (rect.x as i64 + rect.w as i64).min(lw as i64);
    let y1 = (rect.y as i64 + rect.h as i64).min(lh as i64);
    if x1 <= x0 || y1 <= y0 {
        return None;
    }
    Some((y0 - rect.y as i64) as u64 * rect.w as u64 + (x0 - rect.x as i64) as u64)
}

pub fn clipped(rect: &Rect, lw: u32, lh: u32) -> bool {
    rect.x < 0 || rect.y < 0 || rect.x as i64 + rect.w as i64 > lw as i64 || rect.y as i64 + rect.h as i64 > lh as i64
}

pub fn check(case: &ProgCase, info: &mut CaseInfo) -> Result<(), String> {
    let cfg = &case.cfg;
    let (lw, lh) = cfg.logical_size(cfg.orient);
    let mut s = Session::start(cfg)?;
    for op in &case.ops {
        let obs = s.call(op)?;
        if let DrawOp::FillContiguous { rect, len, .. } = op {
            let fv = first_visible_index(rect, lw, lh);
            let l = match len {
                StreamLen::Finite(l) => *l,
                StreamLen::Infinite => u64::MAX,
            };
            let cl = clipped(rect, lw, lh);
            if cl {
                info.label("clipped");
            }
            if rect.x < 0 {
                info.label("clip-left");
            }
            if rect.y < 0 {
                info.label("clip-top");
            }
            if rect.x as i64 + rect.w as i64 > lw as i64 {
                info.label("clip-right");
            }
            if rect.y as i64 + rect.h as i64 > lh as i64 {
                info.label("clip-bottom");
            }
            match len {
                StreamLen::Infinite => info.label("infinite-stream"),
                StreamLen::Finite(l) if *l < rect.area() => info.label("short-stream"),
                StreamLen::Finite(l) if *l > rect.area() => info.label("surplus-stream"),
                _ => info.label("exact-stream"),
            }
            if fv.is_none() {
                info.label("disjoint-or-empty");
            }
            if let Some(fv) = fv {
                if cl && l > fv {
                    info.nontrivial = true;
                }
            }
            let _ = obs;
        }
        s.compare()?;
    }
    Ok(())
}

pub fn strategy(menu: gen::ConfigMenu) -> BoxedStrategy<ProgCase> {
    gen::config(menu)
        .prop_flat_map(|cfg| {
            let (lw, lh) = cfg.logical_size(cfg.orient);
            let fc = (gen::wild_rect(lw, lh), any::<u32>())
                .prop_flat_map(|(r, seed)| (Just(r), Just(seed), gen::stream_len(r.area())))
                .prop_map(|(rect, seed, len)| DrawOp::FillContiguous { rect, len, seed });
            // previous content to be preserved: sometimes a clear first; sometimes two fills
            (Just(cfg), any::<Option<u32>>(), proptest::collection::vec(fc, 1..=2))
        })
        .prop_map(|(cfg, pre, fills)| {
            let mut ops = Vec::new();
            if let Some(seed) = pre {
                ops.push(DrawOp::Clear { seed });
            }
            ops.extend(fills);
            ProgCase { cfg, ops }
        })
        .boxed()
}

fn sig(_c: &ProgCase, reason: &str) -> String {
    let kind = if reason.contains("panicked") {
        "panic"
    } else if reason.contains("HARNESS-BUDGET") {
        "unbounded-pulls"
    } else if reason.contains("expected cell") {
        "wrong-colour-or-missing"
    } else {
        "other"
    };
    format!("c04:{}", kind)
}

pub fn run(ctx: &Ctx) -> Report {
    let mut rep = Report::new("C04", "exploration");
    rep.assumptions = vec![
        "colour k is an injective function of k modulo 2^bits (odd multiplier), so a shifted stream changes the picture".into(),
        "host run covers 32/64-bit pointer targets; the 16-bit helpers are exercised by the msp430/Miri section when present".into(),
    ];
    let mut sec = Section::new(
        &format!("fills[{}]", ctx.variant),
        "config x optional clear x 1..2 fill_contiguous calls; rectangle of any position class (inside, over each edge combination, enclosing, disjoint, zero-sized, huge), stream length 0/1/<area/=area/>area/infinite; oracle: point k of the rectangle gets colour k iff k < L and the point is inside the display, everything else unchanged, pulls <= 2*area+64; non-trivial = rectangle clipped and L beyond the first visible point",
    );
    let n = ctx.cases(40_000, 1_500_000);
    run_generated(&mut sec, ctx.seed, n, ctx.workers, || strategy(gen::ConfigMenu::all_transports()), check, sig);
    rep.sections.push(sec);
    rep
}

pub fn replay(_section: &str, case: &Value) -> Result<(), String> {
    check(&de::<ProgCase>(case)?, &mut CaseInfo::default())
}

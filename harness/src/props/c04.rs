//! C04 — fill_contiguous keeps colour k on point k under any clipping (host part).

use super::{de, Ctx};
use crate::exec::{ProgCase, Session};
use crate::gen;
use crate::runner::*;
use crate::types::*;
use proptest::prelude::*;
use serde_json::Value;

/// index (row-major, in the whole rectangle) of the first visible point, if any
pub fn first_visible_index(rect: &Rect, lw: u32, lh: u32) -> Option<u64> {
    let x0 = (rect.x as i64).max(0);
    let y0 = (rect.y as i64).max(0);
    let x1 = (rect.x as i64 + rect.w as i64).min(lw as i64);
    let y1 = (rect.y as i64 + rect.h as i64).min(lh as i64);
    if x1 <= x0 || y1 <= y0 {
        return None;
    }
    Some((y0 - rect.y as i64) as u64 * rect.w as u64 + (x0 - rect.x as i64) as u64)
}

pub fn clipped(rect: &Rect, lw: u32, lh: u32) -> bool {
    rect.x < 0 || rect.y < 0 || rect.x as i64 + rect.w as i64 > lw as i64 || rect.y as i64 + rect.h as i64 > lh as i64
}

pub fn check(case: &ProgCase, info: &mut CaseInfo) -> Result<(), String> {
    let cfg = &case.cfg;
    let (lw, lh) = cfg.logical_size(cfg.orient);
    let mut s = Session::start(cfg)?;
    for op in &case.ops {
        let obs = s.call(op)?;
        if let DrawOp::FillContiguous { rect, len, .. } = op {
            let fv = first_visible_index(rect, lw, lh);
            let l = match len {
                StreamLen::Finite(l) => *l,
                StreamLen::Infinite => u64::MAX,
            };
            let cl = clipped(rect, lw, lh);
            if cl {
                info.label("clipped");
            }
            if rect.x < 0 {
                info.label("clip-left");
            }
            if rect.y < 0 {
                info.label("clip-top");
            }
            if rect.x as i64 + rect.w as i64 > lw as i64 {
                info.label("clip-right");
            }
            if rect.y as i64 + rect.h as i64 > lh as i64 {
                info.label("clip-bottom");
            }
            match len {
                StreamLen::Infinite => info.label("infinite-stream"),
                StreamLen::Finite(l) if *l < rect.area() => info.label("short-stream"),
                StreamLen::Finite(l) if *l > rect.area() => info.label("surplus-stream"),
                _ => info.label("exact-stream"),
            }
            if fv.is_none() {
                info.label("disjoint-or-empty");
            }
            if let Some(fv) = fv {
                if cl && l > fv {
                    info.nontrivial = true;
                }
            }
            let _ = obs;
        }
        s.compare()?;
    }
    Ok(())
}

pub fn strategy(menu: gen::ConfigMenu) -> BoxedStrategy<ProgCase> {
    gen::config(menu)
        .prop_flat_map(|cfg| {
            let (lw, lh) = cfg.logical_size(cfg.orient);
            let fc = (gen::wild_rect(lw, lh), any::<u32>())
                .prop_flat_map(|(r, seed)| (Just(r), Just(seed), gen::stream_len(r.area())))
                .prop_map(|(rect, seed, len)| DrawOp::FillContiguous { rect, len, seed });
            // previous content to be preserved: sometimes a clear first; sometimes two fills
            (Just(cfg), any::<Option<u32>>(), proptest::collection::vec(fc, 1..=2))
        })
        .prop_map(|(cfg, pre, fills)| {
            let mut ops = Vec::new();
            if let Some(seed) = pre {
                ops.push(DrawOp::Clear { seed });
            }
            ops.extend(fills);
            ProgCase { cfg, ops }
        })
        .boxed()
}

fn sig(_c: &ProgCase, reason: &str) -> String {
    let kind = if reason.contains("panicked") {
        "panic"
    } else if reason.contains("HARNESS-BUDGET") {
        "unbounded-pulls"
    } else if reason.contains("expected cell") {
        "wrong-colour-or-missing"
    } else {
        "other"
    };
    format!("c04:{}", kind)
}

// ---------------------------------------------------------------------------------------------
// 16-bit-pointer clause: the same cases on the host (64-bit helpers) and under Miri for
// msp430-none-elf (16-bit helpers); the traffic digests must agree.

use crate::shared16::{run_case, Case16, Outcome16, MODELS16};

fn interval16(l: u32, max_over: i64) -> BoxedStrategy<(i32, u32)> {
    let li = l as i64;
    prop_oneof![
        3 => (0..l, 0..l).prop_map(|(a, b)| (a.min(b) as i32, a.max(b) - a.min(b) + 1)),
        3 => (1i64..=max_over, 0..l).prop_map(|(k, e)| ((-k) as i32, (e as i64 + k + 1) as u32)),
        3 => (0..l, 1i64..=max_over).prop_map(move |(s, k)| (s as i32, (li - s as i64 + k) as u32)),
        2 => (1i64..=max_over, 1i64..=max_over).prop_map(move |(a, b)| ((-a) as i32, (li + a + b) as u32)),
        1 => (1i64..=20, 1u32..=6).prop_map(|(gap, len)| ((-(gap + len as i64)) as i32, len)),
        1 => (0i64..=20, 1u32..=6).prop_map(move |(gap, len)| ((li + gap) as i32, len)),
        1 => (-5i32..(l as i32 + 5)).prop_map(|s| (s, 0u32)),
    ]
    .boxed()
}

/// Cases small enough for Miri on a 16-bit address space: the interpreter hands out fresh addresses
/// for every temporary and runs out of its 64 KiB after a few hundred colour pulls, so one case
/// per process and at most 120 points per rectangle.
pub fn case16_strategy() -> BoxedStrategy<Case16> {
    prop_oneof![3 => Just(0u8), 1 => Just(1u8)]
        .prop_flat_map(move |m| {
            let (fw, fh) = MODELS16[m as usize];
            (Just(m), 1u16..=fw.min(12), 1u16..=fh.min(12), 0u8..4, any::<bool>(), any::<u32>(), any::<u16>(), any::<u16>())
        })
        .prop_flat_map(move |(m, w, h, rot, mirrored, seed, a, b)| {
            let (fw, fh) = MODELS16[m as usize];
            let ox = a % (fw - w + 1);
            let oy = b % (fh - h + 1);
            let (lw, lh) = if rot & 1 == 1 { (h as u32, w as u32) } else { (w as u32, h as u32) };
            (Just((m, w, h, ox, oy, rot, mirrored, seed)), interval16(lw, 6), interval16(lh, 6), 0u8..10, any::<u32>())
        })
        .prop_map(|((model, w, h, ox, oy, rot, mirrored, seed), (rx, rw), (ry, mut rh), lsel, lraw)| {
            if rw > 0 && rw as u64 * rh as u64 > 120 {
                rh = (120 / rw).max(1);
            }
            let area = rw as u64 * rh as u64;
            let len = match lsel {
                0 | 1 => u32::MAX,
                2 => 0,
                3 => area.saturating_sub(1) as u32,
                4 => (area + 1 + (lraw % 7) as u64) as u32,
                5 | 6 => (lraw as u64 % (area + 1)) as u32,
                _ => area as u32,
            };
            Case16 { model, w, h, ox, oy, rot, mirrored, rx, ry, rw, rh, len, seed }
        })
        .boxed()
}

fn case16_json(c: &Case16) -> Value {
    serde_json::json!({"model": c.model, "w": c.w, "h": c.h, "ox": c.ox, "oy": c.oy, "rot": c.rot, "mirrored": c.mirrored,
        "rx": c.rx, "ry": c.ry, "rw": c.rw, "rh": c.rh, "len": c.len, "seed": c.seed})
}

fn case16_from_json(v: &Value) -> Option<Case16> {
    Some(Case16 {
        model: v["model"].as_u64()? as u8,
        w: v["w"].as_u64()? as u16,
        h: v["h"].as_u64()? as u16,
        ox: v["ox"].as_u64()? as u16,
        oy: v["oy"].as_u64()? as u16,
        rot: v["rot"].as_u64()? as u8,
        mirrored: v["mirrored"].as_bool()?,
        rx: v["rx"].as_i64()? as i32,
        ry: v["ry"].as_i64()? as i32,
        rw: v["rw"].as_u64()? as u32,
        rh: v["rh"].as_u64()? as u32,
        len: v["len"].as_u64()? as u32,
        seed: v["seed"].as_u64()? as u32,
    })
}

fn sample_cases(strat: BoxedStrategy<Case16>, n: usize, seed: u64) -> Vec<Case16> {
    use proptest::strategy::ValueTree;
    use proptest::test_runner::{Config as PtConfig, RngSeed, TestRunner};
    let mut cfg = PtConfig::default();
    cfg.rng_seed = RngSeed::Fixed(seed);
    cfg.failure_persistence = None;
    let mut runner = TestRunner::new(cfg);
    (0..n).filter_map(|_| strat.new_tree(&mut runner).ok().map(|t| t.current())).collect()
}

#[derive(Debug, Clone, PartialEq)]
enum Miri {
    Agree,
    Mismatch(String),
    /// the interpreter ran out of its 16-bit address space: the case is skipped (counted), not judged
    OutOfAddressSpace,
}

/// Run one case under Miri for msp430-none-elf. Err = tooling problem (inconclusive, never a violation).
fn run_miri(c: &Case16, o: &Outcome16) -> Result<Miri, String> {
    let tdir = std::env::var("VERIF_TARGET_DIR").unwrap_or_else(|_| "/verif/target".into());
    let dir = format!("{}/h16", tdir);
    std::fs::create_dir_all(&dir).map_err(|e| e.to_string())?;
    let mut cmd = std::process::Command::new("cargo");
    cmd.arg("+nightly").arg("miri").arg("run").arg("--target").arg("msp430-none-elf").arg("--target-dir").arg(format!("{}/miri", dir));
    if cfg!(feature = "batch") {
        cmd.arg("--features").arg("batch");
    }
    if let Ok(r) = std::env::var("VERIF_REPO_OVERRIDE") {
        cmd.arg("--config").arg(format!("paths=[\"{}\"]", r));
    }
    cmd.arg("--");
    cmd.arg(format!(
        "{},{},{},{},{},{},{},{},{},{},{},{},{},{},{},{},{}",
        c.model, c.w, c.h, c.ox, c.oy, c.rot, c.mirrored as u8, c.rx, c.ry, c.rw, c.rh, c.len, c.seed, o.ok as u8, o.hash, o.cmds, o.words
    ));
    cmd.current_dir("/verif/harness16").env("MIRI_NO_STD", "1").env("CARGO_NET_OFFLINE", "true").env_remove("RUSTFLAGS").env_remove("MIRIFLAGS");
    let out = cmd.output().map_err(|e| format!("cannot run cargo miri: {}", e))?;
    let stdout = String::from_utf8_lossy(&out.stdout).to_string();
    let stderr = String::from_utf8_lossy(&out.stderr).to_string();
    if stderr.contains("no more free addresses in the address space") {
        return Ok(Miri::OutOfAddressSpace);
    }
    for line in stdout.lines() {
        if let Some(rest) = line.strip_prefix("H16-MISMATCH case=") {
            return Ok(Miri::Mismatch(format!(
                "on a 16-bit-pointer target fill_contiguous produced different bus traffic than on the host (expected hash={} cmds={} words={}): {}",
                o.hash, o.cmds, o.words, rest
            )));
        }
        if line.starts_with("H16-PANIC") {
            return Ok(Miri::Mismatch("on a 16-bit-pointer target fill_contiguous panicked (or pulled colours without bound)".to_string()));
        }
        if line.starts_with("H16-DONE cases=1 mismatches=0") {
            return Ok(Miri::Agree);
        }
    }
    let tail = |s: &str, n: usize| s.chars().rev().take(n).collect::<String>().chars().rev().collect::<String>();
    Err(format!("16-bit runner did not complete: {} {}", tail(&stdout, 400), tail(&stderr, 1500)))
}

fn section16(ctx: &Ctx) -> Section {
    let mut sec = Section::new(
        &format!("msp430-miri[{}]", ctx.variant),
        "fill_contiguous cases (displays of up to 12x12 on 24x24 Rgb565 / 20x13 Rgb666 framebuffers with generated window, offset, orientation; rectangles of every position class with overhangs up to 6 and at most 120 points; stream lengths 0 .. area+7 and infinite) executed one per process by Miri for msp430-none-elf, where usize is 16 bits and the crate's 16-bit take/skip helpers are the ones compiled; oracle: digest of the bus traffic equals the digest of the host run of the same case (the host code path is judged against the reference model by the fills section); non-trivial = rectangle clipped and stream reaches the first visible point",
    );
    let n = ctx.cases(240, 4000) as usize;
    let cases = sample_cases(case16_strategy(), n, ctx.seed ^ 0x16);
    let with: Vec<(Case16, Outcome16)> = cases.iter().map(|c| (*c, run_case(c))).collect();
    if with.is_empty() {
        return sec;
    }
    // the first invocation builds the crate (and, on a fresh machine, the Miri sysroot): do it alone
    let first = run_miri(&with[0].0, &with[0].1);
    if let Err(e) = &first {
        sec.violations.push(Violation { reason: format!("HARNESS: {}", e), case: Value::Null, signature: "harness-miri".into() });
        return sec;
    }
    let next = std::sync::atomic::AtomicUsize::new(0);
    let results: std::sync::Mutex<Vec<(usize, Result<Miri, String>)>> = std::sync::Mutex::new(Vec::new());
    std::thread::scope(|sc| {
        for _ in 0..ctx.workers.min(16) {
            let (next, results, with) = (&next, &results, &with);
            sc.spawn(move || loop {
                let i = next.fetch_add(1, std::sync::atomic::Ordering::Relaxed);
                if i >= with.len() {
                    break;
                }
                let r = run_miri(&with[i].0, &with[i].1);
                results.lock().unwrap().push((i, r));
            });
        }
    });
    let mut results = results.into_inner().unwrap();
    results.sort_by_key(|r| r.0);
    let mut skipped = 0u64;
    for (i, r) in results {
        let c = &with[i].0;
        let lw = if c.rot & 1 == 1 { c.h } else { c.w } as u32;
        let lh = if c.rot & 1 == 1 { c.w } else { c.h } as u32;
        let rc = Rect { x: c.rx, y: c.ry, w: c.rw, h: c.rh };
        let mut info = CaseInfo::default();
        match r {
            Ok(Miri::OutOfAddressSpace) => {
                skipped += 1;
                continue;
            }
            Ok(Miri::Agree) => {}
            Ok(Miri::Mismatch(why)) => {
                if sec.violations.len() < 3 {
                    sec.violations.push(Violation { reason: why, case: case16_json(c), signature: "c04:16-bit".into() });
                }
            }
            Err(e) => {
                if !sec.violations.iter().any(|v| v.signature == "harness-miri") {
                    sec.violations.push(Violation { reason: format!("HARNESS: {}", e), case: Value::Null, signature: "harness-miri".into() });
                }
                continue;
            }
        }
        info.nontrivial = clipped(&rc, lw, lh) && first_visible_index(&rc, lw, lh).map(|f| (c.len as u64) > f || c.len == u32::MAX).unwrap_or(false);
        if clipped(&rc, lw, lh) {
            info.label("clipped");
        }
        if c.len == u32::MAX {
            info.label("infinite-stream");
        }
        #[derive(serde::Serialize, Hash)]
        struct K(u8, u16, u16, u16, u16, u8, bool, i32, i32, u32, u32, u32, u32);
        sec.stats.record(&K(c.model, c.w, c.h, c.ox, c.oy, c.rot, c.mirrored, c.rx, c.ry, c.rw, c.rh, c.len, c.seed), &info);
    }
    sec.extra.insert("skipped_out_of_miri_address_space".into(), serde_json::json!(skipped));
    sec
}

/// host-side run of the extracted 16-bit helpers with counts beyond 65535 (see /verif/helpers16)
fn section_helpers(ctx: &Ctx) -> Section {
    let mut sec = Section::new(
        &format!("helpers16-host[{}]", ctx.variant),
        "the crate's #[cfg(target_pointer_width = \"16\")] take_u32 / nth_u32 (extracted from src/graphics.rs at text level and compiled on the host) against the standard library's take / nth over streams of 0 .. 2^20+5 items and endless streams, counts 0 .. 2^20 with emphasis on 65534..65538 and 131071..131073: same items, same count, same stream position after the call, twice in a row; non-trivial = count and stream length beyond 65535 (out of reach of Miri's 16-bit address space)",
    );
    let tdir = std::env::var("VERIF_TARGET_DIR").unwrap_or_else(|_| "/verif/target".into());
    let out = std::process::Command::new("cargo")
        .args(["run", "--release", "--offline", "--target-dir", &format!("{}/helpers16", tdir)])
        .current_dir("/verif/helpers16")
        .env("CARGO_NET_OFFLINE", "true")
        .output();
    let (stdout, stderr) = match out {
        Ok(o) => (String::from_utf8_lossy(&o.stdout).to_string(), String::from_utf8_lossy(&o.stderr).to_string()),
        Err(e) => (String::new(), e.to_string()),
    };
    let mut seen = false;
    for line in stdout.lines() {
        if let Some(rest) = line.strip_prefix("H16X-OK evaluations=") {
            seen = true;
            let mut it = rest.split_whitespace();
            sec.stats.evaluations = it.next().and_then(|s| s.parse().ok()).unwrap_or(0);
            let beyond: u64 = it.next().and_then(|s| s.strip_prefix("beyond_65535=")).and_then(|s| s.parse().ok()).unwrap_or(0);
            for i in 0..beyond {
                sec.stats.nontrivial.insert(i);
            }
            sec.stats.samples.push(serde_json::json!({"helper": "take_u32", "stream_len": 200000, "max_count": 65536}));
            sec.stats.samples.push(serde_json::json!({"helper": "nth_u32", "stream_len": "endless", "n": 131072}));
        } else if let Some(rest) = line.strip_prefix("H16X-FAIL ") {
            seen = true;
            if sec.violations.len() < 2 {
                sec.violations.push(Violation { reason: format!("16-bit helper (host build): {}", rest), case: serde_json::json!({"helpers16": rest}), signature: "c04:16-bit-helper".into() });
            }
        } else if line.starts_with("H16X-UNAVAILABLE") {
            seen = true;
            sec.extra.insert("unavailable".into(), serde_json::json!(line));
        }
    }
    if !seen {
        // extraction or compilation failed (e.g. the helpers were restructured): recorded, not judged
        let tail: String = stderr.chars().rev().take(600).collect::<String>().chars().rev().collect();
        sec.extra.insert("unavailable".into(), serde_json::json!(format!("helpers16 did not build/run: {}", tail)));
    }
    sec
}

pub fn replay16(case: &Value) -> Result<(), String> {
    let c = case16_from_json(case).ok_or("HARNESS: cannot parse 16-bit case")?;
    let o = run_case(&c);
    match run_miri(&c, &o) {
        Ok(Miri::Mismatch(why)) => Err(why),
        Ok(_) => Ok(()),
        Err(e) => Err(format!("HARNESS: {}", e)),
    }
}

pub fn run(ctx: &Ctx) -> Report {
    let mut rep = Report::new("C04", "exploration");
    rep.assumptions = vec![
        "colour k is an injective function of k modulo 2^bits (odd multiplier), so a shifted stream changes the picture".into(),
        "host run covers 32/64-bit pointer targets; the 16-bit helpers are exercised by the msp430/Miri section when present".into(),
    ];
    let mut sec = Section::new(
        &format!("fills[{}]", ctx.variant),
        "config x optional clear x 1..2 fill_contiguous calls; rectangle of any position class (inside, over each edge combination, enclosing, disjoint, zero-sized, huge), stream length 0/1/<area/=area/>area/infinite; oracle: point k of the rectangle gets colour k iff k < L and the point is inside the display, everything else unchanged, pulls <= 2*area+64; non-trivial = rectangle clipped and L beyond the first visible point",
    );
    let n = ctx.cases(350_000, 6_000_000);
    run_generated(&mut sec, ctx.seed, n, ctx.workers, || strategy(gen::ConfigMenu::all_transports()), check, sig);
    rep.sections.push(sec);
    super::history_section(&mut rep, ctx, ctx.seed ^ 0x64, ctx.cases(100_000, 2_000_000), || strategy(gen::ConfigMenu::all_transports()), check, sig);
    // the 16-bit sections build their own crates (independent of this binary's profile): once per feature setting is enough
    if !ctx.wrap_profile() {
        if std::env::var("VERIF_SKIP_MIRI").is_err() {
            rep.sections.push(section16(ctx));
        }
        rep.sections.push(section_helpers(ctx));
    }
    rep
}

pub fn replay(section: &str, case: &Value) -> Result<(), String> {
    if section.starts_with("msp430") {
        return replay16(case);
    }
    if section.starts_with("helpers16") {
        let mut s = section_helpers(&Ctx { tier: super::Tier::Quick, seed: 1, workers: 1, variant: "replay".into() });
        return match s.violations.pop() {
            Some(v) => Err(v.reason),
            None => Ok(()),
        };
    }
    if section.starts_with("after-history") {
        return super::replay_history(case, check);
    }
    check(&de::<ProgCase>(case)?, &mut CaseInfo::default())
}

//! One module per property.
use crate::runner::Report;
use serde_json::Value;

pub mod c01;

#[derive(Clone, Copy, Debug, PartialEq, Eq)]
pub enum Tier {
    Quick,
    Thorough,
}

pub struct Ctx {
    pub tier: Tier,
    pub seed: u64,
    pub workers: usize,
    /// name of the build variant this binary is (e.g. "chk+batch")
    pub variant: String,
}

impl Ctx {
    pub fn batch(&self) -> bool {
        cfg!(feature = "batch")
    }
    pub fn wrap_profile(&self) -> bool {
        !cfg!(debug_assertions)
    }
    /// scale a case count: quick = n, thorough = n * factor
    pub fn cases(&self, quick: u64, thorough: u64) -> u64 {
        let base = match self.tier {
            Tier::Quick => quick,
            Tier::Thorough => thorough,
        };
        match std::env::var("VERIF_SCALE").ok().and_then(|s| s.parse::<f64>().ok()) {
            Some(f) => ((base as f64) * f).max(1.0) as u64,
            None => base,
        }
    }
}

pub const ALL: &[&str] = &["C01"];

pub fn run_property(id: &str, ctx: &Ctx) -> Option<Report> {
    Some(match id {
        "C01" => c01::run(ctx),
        _ => return None,
    })
}

/// re-execute one saved case without proptest
pub fn replay_property(id: &str, section: &str, case: &Value) -> Option<Result<(), String>> {
    Some(match id {
        "C01" => c01::replay(section, case),
        _ => return None,
    })
}

pub fn de<T: serde::de::DeserializeOwned>(v: &Value) -> Result<T, String> {
    serde_json::from_value(v.clone()).map_err(|e| format!("HARNESS: cannot parse replay case: {}", e))
}

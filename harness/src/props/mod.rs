//! One module per property.
use crate::runner::Report;
use serde_json::Value;

pub mod c01;
pub mod c02;
pub mod c03;
pub mod c04;
pub mod c05;
pub mod c06;
pub mod c07;
pub mod c08;
pub mod c09;
pub mod c10;
pub mod c15;
pub mod c16;
pub mod c14;
pub mod c18;
pub mod c11;
pub mod c12;
pub mod c13;
pub mod c17;
pub mod c19;
pub mod c20;

#[derive(Clone, Copy, Debug, PartialEq, Eq)]
pub enum Tier {
    Quick,
    Thorough,
}

pub struct Ctx {
    pub tier: Tier,
    pub seed: u64,
    pub workers: usize,
    /// name of the build variant this binary is (e.g. "chk+batch")
    pub variant: String,
}

impl Ctx {
    pub fn batch(&self) -> bool {
        cfg!(feature = "batch")
    }
    pub fn wrap_profile(&self) -> bool {
        !cfg!(debug_assertions)
    }
    /// scale a case count: quick = n, thorough = n * factor
    pub fn cases(&self, quick: u64, thorough: u64) -> u64 {
        let base = match self.tier {
            Tier::Quick => quick,
            Tier::Thorough => thorough,
        };
        match std::env::var("VERIF_SCALE").ok().and_then(|s| s.parse::<f64>().ok()) {
            Some(f) => ((base as f64) * f).max(1.0) as u64,
            None => base,
        }
    }
}

/// A section that runs a ProgCase-based check after a generated history (see `exec::Hist`): the
/// display was built with another orientation, drew, and was re-oriented to the orientation of the case.
pub fn history_section(
    rep: &mut Report,
    ctx: &Ctx,
    seed: u64,
    cases: u64,
    strat: impl Fn() -> proptest::strategy::BoxedStrategy<crate::exec::ProgCase> + Sync,
    check: impl Fn(&crate::exec::ProgCase, &mut crate::runner::CaseInfo) -> Result<(), String> + Sync,
    sig: impl Fn(&crate::exec::ProgCase, &str) -> String + Sync,
) {
    let mut sec = crate::runner::Section::new(
        &format!("after-history[{}]", ctx.variant),
        "the same generated cases and oracle, on a display with a history: built with another orientation, 0..3 in-bounds drawing calls (one third of the time including a copy of the first judged call), 0..2 intermediate set_orientation calls with drawing in between, then set_orientation to the orientation of the case; the simulated frame memory is wiped before the judged calls; non-trivial as for the plain section",
    );
    crate::runner::run_generated(
        &mut sec,
        seed,
        cases,
        ctx.workers,
        || crate::gen::history(strat()),
        |c, info| {
            let r = crate::exec::with_history(&c.hist, || check(&c.prog, info));
            if c.hist.first.vertical() != c.prog.cfg.orient.vertical() {
                info.label("history:axes-exchanged");
            }
            if !c.hist.via.is_empty() {
                info.label("history:several-orientations");
            }
            if !c.hist.pre.is_empty() || !c.hist.mid.is_empty() {
                info.label("history:drew-before");
            }
            r
        },
        |c, r| format!("hist:{}", sig(&c.prog, r)),
    );
    rep.sections.push(sec);
}

pub fn replay_history(case: &Value, check: impl Fn(&crate::exec::ProgCase, &mut crate::runner::CaseInfo) -> Result<(), String>) -> Result<(), String> {
    let c = de::<crate::exec::HistCase>(case)?;
    crate::exec::with_history(&c.hist, || check(&c.prog, &mut crate::runner::CaseInfo::default()))
}

pub const ALL: &[&str] = &["C01", "C02", "C03", "C04", "C05", "C06", "C07", "C08", "C09", "C10", "C11", "C12", "C13", "C14", "C15", "C16", "C17", "C18", "C19", "C20"];

pub fn run_property(id: &str, ctx: &Ctx) -> Option<Report> {
    Some(match id {
        "C01" => c01::run(ctx),
        "C02" => c02::run(ctx),
        "C03" => c03::run(ctx),
        "C04" => c04::run(ctx),
        "C05" => c05::run(ctx),
        "C06" => c06::run(ctx),
        "C07" => c07::run(ctx),
        "C08" => c08::run(ctx),
        "C09" => c09::run(ctx),
        "C10" => c10::run(ctx),
        "C15" => c15::run(ctx),
        "C16" => c16::run(ctx),
        "C14" => c14::run(ctx),
        "C18" => c18::run(ctx),
        "C11" => c11::run(ctx),
        "C12" => c12::run(ctx),
        "C13" => c13::run(ctx),
        "C17" => c17::run(ctx),
        "C19" => c19::run(ctx),
        "C20" => c20::run(ctx),
        _ => return None,
    })
}

/// re-execute one saved case without proptest
pub fn replay_property(id: &str, section: &str, case: &Value) -> Option<Result<(), String>> {
    Some(match id {
        "C01" => c01::replay(section, case),
        "C02" => c02::replay(section, case),
        "C03" => c03::replay(section, case),
        "C04" => c04::replay(section, case),
        "C05" => c05::replay(section, case),
        "C06" => c06::replay(section, case),
        "C07" => c07::replay(section, case),
        "C08" => c08::replay(section, case),
        "C09" => c09::replay(section, case),
        "C10" => c10::replay(section, case),
        "C15" => c15::replay(section, case),
        "C16" => c16::replay(section, case),
        "C14" => c14::replay(section, case),
        "C18" => c18::replay(section, case),
        "C11" => c11::replay(section, case),
        "C12" => c12::replay(section, case),
        "C13" => c13::replay(section, case),
        "C17" => c17::replay(section, case),
        "C19" => c19::replay(section, case),
        "C20" => c20::replay(section, case),
        _ => return None,
    })
}

pub fn de<T: serde::de::DeserializeOwned>(v: &Value) -> Result<T, String> {
    serde_json::from_value(v.clone()).map_err(|e| format!("HARNESS: cannot parse replay case: {}", e))
}

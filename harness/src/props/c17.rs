//! C17 — reset comes first: a >= 10 us low pulse on the reset pin, or a software reset.

use super::{c11, de, Ctx};
use crate::dut::{build, new_world, type_compatible};
use crate::gen::supported;
use crate::models::{ModelId, ALL_MODELS};
use crate::panel::Tr;
use crate::runner::*;
use crate::types::*;
use serde_json::Value;

pub fn check(c: &c11::InitCase, info: &mut CaseInfo) -> Result<(), String> {
    let c11::Via::Builder(t) = &c.via else { return Err("HARNESS: C17 needs a Builder case".into()) };
    let mut cfg = c.cfg.clone();
    cfg.transport = *t;
    let w = new_world(&cfg);
    w.borrow_mut().latch_on = true;
    // the D/C line may idle at any level before init (e.g. left high by an earlier session)
    let dc0 = match (cfg.w as u32 + cfg.oy as u32 + cfg.orient.index() as u32) % 3 {
        0 => None,
        1 => Some(true),
        _ => Some(false),
    };
    w.borrow_mut().dc = dc0;
    let d = build(&cfg, &w).map_err(|e| format!("init failed: {:?}", e))?;
    let trace = w.borrow_mut().panel.take_trace();
    if let Some(e) = w.borrow().decode_errors.first() {
        return Err(format!("bus decode error during init (D/C initially {:?}): {}", dc0, e));
    }
    c11::judge_reset(&w.borrow(), &cfg, &trace).map_err(|e| format!("{} (D/C initially {:?})", e, dc0))?;
    if t.pin_level() && !cfg.reset_pin {
        // at pin level: the first *latched word* is the software-reset instruction
        let wb = w.borrow();
        match wb.latch_log.first() {
            Some((false, 0x01)) => {}
            other => return Err(format!("first word latched by the controller is {:?}, expected the software-reset instruction (D/C low, 0x01); D/C initially {:?}", other, dc0)),
        }
    }
    // all model-specific commands come after the reset: with a pin nothing precedes the pulse,
    // without one the first command is 0x01 (both judged above); the init must have sent something
    if !trace.iter().any(|t| matches!(t, Tr::Cmd { op, .. } if *op != 0x01)) {
        return Err("init sent no model commands at all".into());
    }
    drop(d);
    info.nontrivial = true;
    info.label(t.label());
    info.label(if cfg.reset_pin { "reset-pin" } else { "software-reset" });
    Ok(())
}

fn sig(c: &c11::InitCase, reason: &str) -> String {
    let r: String = reason.chars().take(30).collect();
    format!("c17:{}:{}", c.cfg.model.name(), r)
}

pub fn run(ctx: &Ctx) -> Report {
    let mut rep = Report::new("C17", "exploration");
    rep.assumptions = vec![
        "unified timeline of all doubles: the reset pin, the delay source and the bus share one virtual clock and one operation counter".into(),
        "toggling D/C or WR before the reset pulse is not bus traffic; a word counts once the controller latches it (SPI byte, WR rising edge, Interface call)".into(),
    ];
    let models: Vec<ModelId> = ALL_MODELS.iter().copied().filter(|m| m.builtin() || *m == ModelId::ExtST7789).collect();
    let vias = |m: ModelId| {
        let mut v = Vec::new();
        for t in [Transport::Rec8, Transport::Rec16, Transport::Spi { buf: 8 }, Transport::Spi { buf: 1 }, Transport::Par8, Transport::Par16] {
            if type_compatible(m, t) && supported(m, t.kind()) {
                v.push(c11::Via::Builder(t));
            }
        }
        v
    };
    let mut sec = Section::new(
        &format!("inits[{}]", ctx.variant),
        "every built-in model (and the external ST7789 copy) x every supported transport (recording, SPI, 8/16-bit parallel at pin level) x reset pin yes/no x 2 colour orders x 8 orientations x 2 inversions x 4 refresh orders; oracle on the unified timeline: RST low first, >= 10 us before RST high, no word on the bus before RST is high, never low again, left high, no 0x01 - or without a pin: first latched word is command 0x01, exactly once",
    );
    sec.exhaustive = true;
    run_enumerated(&mut sec, c11::option_product(&models, &vias, true, ctx.seed ^ 17), ctx.workers, check, sig);
    rep.sections.push(sec);
    rep
}

pub fn replay(_section: &str, case: &Value) -> Result<(), String> {
    check(&de::<c11::InitCase>(case)?, &mut CaseInfo::default())
}

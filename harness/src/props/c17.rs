//! C17 — reset comes first: a >= 10 us low pulse on the reset pin, or a software reset.

use super::{c11, de, Ctx};
use crate::dut::{build, new_world, type_compatible};
use crate::gen::supported;
use crate::models::{ModelId, ALL_MODELS};
use crate::panel::Tr;
use crate::runner::*;
use crate::types::*;
use serde_json::Value;

pub fn check(c: &c11::InitCase, info: &mut CaseInfo) -> Result<(), String> {
    let c11::Via::Builder(t) = &c.via else { return Err("HARNESS: C17 needs a Builder case".into()) };
    let mut cfg = c.cfg.clone();
    cfg.transport = *t;
    let w = new_world(&cfg);
    w.borrow_mut().latch_on = true;
    // the D/C line may idle at any level before init (e.g. left high by an earlier session)
    let dc0 = match (cfg.w as u32 + cfg.oy as u32 + cfg.orient.index() as u32) % 3 {
        0 => None,
        1 => Some(true),
        _ => Some(false),
    };
    w.borrow_mut().dc = dc0;
    let d = build(&cfg, &w).map_err(|e| format!("init failed: {:?}", e))?;
    let trace = w.borrow_mut().panel.take_trace();
    if let Some(e) = w.borrow().decode_errors.first() {
        return Err(format!("bus decode error during init (D/C initially {:?}): {}", dc0, e));
    }
    c11::judge_reset(&w.borrow(), &cfg, &trace).map_err(|e| format!("{} (D/C initially {:?})", e, dc0))?;
    if t.pin_level() && !cfg.reset_pin {
        // at pin level: the first *latched word* is the software-reset instruction
        let wb = w.borrow();
        match wb.latch_log.first() {
            Some((false, 0x01)) => {}
            other => return Err(format!("first word latched by the controller is {:?}, expected the software-reset instruction (D/C low, 0x01); D/C initially {:?}", other, dc0)),
        }
    }
    // all model-specific commands come after the reset: with a pin nothing precedes the pulse,
    // without one the first command is 0x01 (both judged above); the init must have sent something
    if !trace.iter().any(|t| matches!(t, Tr::Cmd { op, .. } if *op != 0x01)) {
        return Err("init sent no model commands at all".into());
    }
    drop(d);
    info.nontrivial = true;
    info.label(t.label());
    info.label(if cfg.reset_pin { "reset-pin" } else { "software-reset" });
    Ok(())
}

fn sig(c: &c11::InitCase, reason: &str) -> String {
    let r: String = reason.chars().take(30).collect();
    format!("c17:{}:{}", c.cfg.model.name(), r)
}

// ---- a second init over an interface object that has been used (Builder::new(model, &mut interface))

#[derive(Clone, Debug, PartialEq, Eq, Hash, serde::Serialize, serde::Deserialize)]
pub struct ReuseCase {
    pub cfg: Config,
    /// what the first display did before it was dropped (see c12::use_display)
    pub usage: u8,
}

pub fn check_reuse(c: &ReuseCase, info: &mut CaseInfo) -> Result<(), String> {
    crate::dut::install_panic_hook();
    let w = new_world(&c.cfg);
    let r = std::panic::catch_unwind(std::panic::AssertUnwindSafe(|| super::c12::reinit_after_use(&c.cfg, &w, c.usage)));
    let trace = match r {
        Ok(t) => t?,
        Err(_) => return Err("init over a used interface panicked".into()),
    };
    let wb = w.borrow();
    if let Some(e) = wb.decode_errors.first() {
        return Err(format!("second init over an interface used before (usage {}): bus decode error: {}", c.usage, e));
    }
    c11::judge_reset(&wb, &c.cfg, &trace).map_err(|e| format!("second init over an interface used before (usage {}): {}", c.usage, e))?;
    if c.cfg.transport.pin_level() && !c.cfg.reset_pin {
        match wb.latch_log.first() {
            Some((false, 0x01)) => {}
            other => return Err(format!("second init over an interface used before (usage {}): first word latched by the controller is {:?}, expected the software-reset instruction (D/C low, 0x01)", c.usage, other)),
        }
    }
    info.nontrivial = true;
    info.label(c.cfg.transport.label());
    info.label(if c.cfg.reset_pin { "reset-pin" } else { "software-reset" });
    Ok(())
}

pub fn run(ctx: &Ctx) -> Report {
    let mut rep = Report::new("C17", "exploration");
    rep.assumptions = vec![
        "unified timeline of all doubles: the reset pin, the delay source and the bus share one virtual clock and one operation counter".into(),
        "toggling D/C or WR before the reset pulse is not bus traffic; a word counts once the controller latches it (SPI byte, WR rising edge, Interface call)".into(),
    ];
    let models: Vec<ModelId> = ALL_MODELS.iter().copied().filter(|m| m.builtin() || *m == ModelId::ExtST7789).collect();
    let vias = |m: ModelId| {
        let mut v = Vec::new();
        for t in [Transport::Rec8, Transport::Rec16, Transport::Spi { buf: 8 }, Transport::Spi { buf: 1 }, Transport::Par8, Transport::Par16] {
            if type_compatible(m, t) && supported(m, t.kind()) {
                v.push(c11::Via::Builder(t));
            }
        }
        v
    };
    let mut sec = Section::new(
        &format!("inits[{}]", ctx.variant),
        "every built-in model (and the external ST7789 copy) x every supported transport (recording, SPI, 8/16-bit parallel at pin level) x reset pin yes/no x 2 colour orders x 8 orientations x 2 inversions x 4 refresh orders; oracle on the unified timeline: RST low first, >= 10 us before RST high, no word on the bus before RST is high, never low again, left high, no 0x01 - or without a pin: first latched word is command 0x01, exactly once",
    );
    sec.exhaustive = true;
    run_enumerated(&mut sec, c11::option_product(&models, &vias, true, ctx.seed ^ 17), ctx.workers, check, sig);
    rep.sections.push(sec);

    let mut sec = Section::new(
        &format!("init-over-a-used-interface[{}]", ctx.variant),
        "every built-in model x SPI (8-byte buffer) / 8-bit / 16-bit parallel at pin level x reset pin yes/no x 6 kinds of use of a first display built over `&mut interface` (nothing, an empty pixel stream, one pixel, pixel then empty stream, clear, empty stream then a command) x 2 orientations: the second init is judged by the same reset-first oracle (the interface object may carry state from its earlier use)",
    );
    sec.exhaustive = true;
    let mut cases = Vec::new();
    for &m in &models {
        for t in [Transport::Spi { buf: 8 }, Transport::Par8, Transport::Par16] {
            if !type_compatible(m, t) || !supported(m, t.kind()) {
                continue;
            }
            for reset_pin in [false, true] {
                for usage in 0..6u8 {
                    for orient in [Orient::ALL[0], Orient::ALL[5]] {
                        let mut cfg = Config::full(m, t);
                        let (fw, fh) = m.fb();
                        cfg.w = fw.min(9);
                        cfg.h = fh.min(7);
                        cfg.orient = orient;
                        cfg.reset_pin = reset_pin;
                        cases.push(ReuseCase { cfg, usage });
                    }
                }
            }
        }
    }
    run_enumerated(&mut sec, cases, ctx.workers, check_reuse, |c, r| format!("c17:reuse:{}:{}", c.cfg.model.name(), r.chars().take(30).collect::<String>()));
    rep.sections.push(sec);
    rep
}

pub fn replay(section: &str, case: &Value) -> Result<(), String> {
    if section.starts_with("init-over-a-used-interface") {
        return check_reuse(&de::<ReuseCase>(case)?, &mut CaseInfo::default());
    }
    check(&de::<c11::InitCase>(case)?, &mut CaseInfo::default())
}

//! C03 — batched draw_iter is equivalent to setting the pixels one by one, in order.

use super::{de, Ctx, Tier};
use crate::exec::Session;
use crate::gen::{self, Seg};
use crate::models::ModelId;
use crate::runner::*;
use crate::types::*;
use proptest::prelude::*;
use serde::{Deserialize, Serialize};
use serde_json::Value;

#[derive(Clone, Debug, PartialEq, Eq, Hash, Serialize, Deserialize)]
pub struct StreamCase {
    pub cfg: Config,
    pub pts: Vec<(i32, i32)>,
    pub seed: u32,
}

/// Row capacity of the driver, measured: length of the first burst of one long left-to-right run.
pub fn measure_row_cap() -> u64 {
    measure_row_cap_bits(16)
}

/// the capacity may legitimately depend on the colour type (e.g. a byte-budgeted buffer)
pub fn measure_row_cap_bits(bits: u32) -> u64 {
    let cfg = Config::full(if bits == 18 { ModelId::ILI9486Rgb666 } else { ModelId::ILI9486Rgb565 }, Transport::Rec8);
    let Ok(mut s) = Session::start(&cfg) else { return 0 };
    let pts: Vec<(i32, i32)> = (0..300).map(|x| (x, 3)).collect();
    match s.call(&DrawOp::DrawIter { pts, seed: 1 }) {
        Ok(obs) => obs.bursts.first().map(|b| b.pixels).unwrap_or(0),
        Err(_) => 0,
    }
}

/// Block capacity, measured: pixels of the first burst of many stacked short rows
pub fn measure_block_cap() -> u64 {
    let cfg = Config::full(ModelId::ILI9486Rgb565, Transport::Rec8);
    let Ok(mut s) = Session::start(&cfg) else { return 0 };
    let mut pts = Vec::new();
    for y in 0..200 {
        for x in 0..2 {
            pts.push((x, y));
        }
    }
    match s.call(&DrawOp::DrawIter { pts, seed: 1 }) {
        Ok(obs) => obs.bursts.first().map(|b| b.pixels).unwrap_or(0),
        Err(_) => 0,
    }
}

fn longest_run(pts: &[(i32, i32)]) -> u64 {
    let mut best = 0u64;
    let mut cur = 0u64;
    let mut prev: Option<(i32, i32)> = None;
    for &(x, y) in pts {
        if let Some((px, py)) = prev {
            if y == py && x == px.wrapping_add(1) {
                cur += 1;
            } else {
                cur = 1;
            }
        } else {
            cur = 1;
        }
        best = best.max(cur);
        prev = Some((x, y));
    }
    best
}

fn has_stacked_rows(pts: &[(i32, i32)]) -> bool {
    // two consecutive maximal runs with the same start/end column on adjacent rows
    let mut runs: Vec<(i32, i32, i32)> = Vec::new(); // (x0, x1, y)
    for &(x, y) in pts {
        if let Some(last) = runs.last_mut() {
            if last.2 == y && x == last.1.wrapping_add(1) {
                last.1 = x;
                continue;
            }
        }
        runs.push((x, x, y));
    }
    runs.windows(2).any(|w| w[0].0 == w[1].0 && w[0].1 == w[1].1 && w[1].2 == w[0].2.wrapping_add(1))
}

fn has_repeat(pts: &[(i32, i32)]) -> bool {
    let mut seen = std::collections::HashSet::new();
    pts.iter().any(|p| !seen.insert(*p))
}

pub fn check_with_cap(case: &StreamCase, info: &mut CaseInfo, cap: u64) -> Result<(), String> {
    let cfg = &case.cfg;
    let (lw, lh) = cfg.logical_size(cfg.orient);
    let inside = |x: i32, y: i32| x >= 0 && y >= 0 && (x as u32) < lw && (y as u32) < lh;
    // A: one draw_iter call
    let mut a = Session::start(cfg)?;
    let op = DrawOp::DrawIter { pts: case.pts.clone(), seed: case.seed };
    a.call(&op)?;
    // B: set_pixel per in-bounds pixel, in iterator order (out-of-bounds pixels are discarded: C02)
    let mut b = Session::start(cfg)?;
    for (k, &(x, y)) in case.pts.iter().enumerate() {
        if inside(x, y) {
            let c = colour_of(case.seed, k as u64, b.bits);
            b.dut
                .set_pixel(x as u16, y as u16, c)
                .map_err(|e| format!("set_pixel failed: {:?}", e))?;
        }
    }
    let ma = a.w.borrow().panel.mem.written();
    let mb = b.w.borrow().panel.mem.written();
    if ma != mb {
        // first difference
        let sa: std::collections::BTreeMap<(u32, u32), u32> = ma.iter().map(|(x, y, v)| ((*x, *y), *v)).collect();
        let sb: std::collections::BTreeMap<(u32, u32), u32> = mb.iter().map(|(x, y, v)| ((*x, *y), *v)).collect();
        for (k, v) in &sb {
            match sa.get(k) {
                None => return Err(format!("cell {:?}: per-pixel drawing wrote {:#x}, draw_iter left it untouched (pixel dropped)", k, v)),
                Some(v2) if v2 != v => {
                    return Err(format!("cell {:?}: per-pixel drawing ends with {:#x}, draw_iter with {:#x} (recoloured / out of order)", k, v, v2))
                }
                _ => {}
            }
        }
        for (k, v) in &sa {
            if !sb.contains_key(k) {
                return Err(format!("cell {:?}: draw_iter wrote {:#x}, per-pixel drawing never touches it (duplicated onto another position)", k, v));
            }
        }
    }
    a.compare().map_err(|e| format!("draw_iter vs reference image: {}", e))?;
    let lr = longest_run(&case.pts);
    let st = has_stacked_rows(&case.pts);
    let rp = has_repeat(&case.pts);
    if lr > cap {
        info.label("run>cap");
    }
    if cap > 0 && lr == cap {
        info.label("run==cap");
    }
    if cap > 0 && lr == cap + 1 {
        info.label("run==cap+1");
    }
    if st {
        info.label("stacked-rows");
    }
    if rp {
        info.label("repeated-position");
    }
    if case.pts.iter().any(|&(x, y)| !inside(x, y)) {
        info.label("has-out-of-bounds");
    }
    if case.pts.is_empty() {
        info.label("empty");
    }
    info.nontrivial = lr > cap || st || rp;
    Ok(())
}

thread_local! { static CAP: std::cell::Cell<(u64, u64)> = std::cell::Cell::new((u64::MAX, u64::MAX)); }
pub fn cap(bits: u32) -> u64 {
    CAP.with(|c| {
        if c.get().0 == u64::MAX {
            c.set((measure_row_cap_bits(16), measure_row_cap_bits(18)));
        }
        if bits == 18 {
            c.get().1
        } else {
            c.get().0
        }
    })
}

pub fn check(case: &StreamCase, info: &mut CaseInfo) -> Result<(), String> {
    check_with_cap(case, info, cap(case.cfg.model.bits()))
}

/// streams dedicated to the batching logic
pub fn stream(lw: u32, lh: u32, max_segs: usize, wild: bool) -> BoxedStrategy<Vec<(i32, i32)>> {
    let ragged = (gen::edge_u32(lw - 1), gen::edge_u32(lh - 1), proptest::collection::vec((-2i8..=2, 0u8..=60), 1..8))
        .prop_map(|(x, y, lens)| Seg::Ragged { x: x as i32, y: y as i32, lens });
    let base = if wild { gen::pts_wild(lw, lh, max_segs, 320) } else { gen::pts_in(lw, lh, max_segs, 320) };
    (base, proptest::collection::vec(ragged, 0..2), any::<bool>())
        .prop_map(move |(mut pts, rag, tail)| {
            for r in &rag {
                r.emit(&mut pts);
            }
            if tail {
                // trailing one-pixel row
                pts.push((0, 0));
            }
            if !wild {
                pts.retain(|(x, y)| *x >= 0 && *y >= 0 && (*x as u32) < lw && (*y as u32) < lh);
            }
            pts
        })
        .boxed()
}

pub fn strategy(menu: gen::ConfigMenu, max_segs: usize) -> BoxedStrategy<StreamCase> {
    (gen::config(menu), 0u8..10)
        .prop_flat_map(move |(cfg, wild)| {
            let (lw, lh) = cfg.logical_size(cfg.orient);
            (Just(cfg), stream(lw, lh, max_segs, wild == 0), any::<u32>())
        })
        .prop_map(|(cfg, pts, seed)| StreamCase { cfg, pts, seed })
        .boxed()
}

fn wide_menu() -> gen::ConfigMenu {
    // rows long enough to exceed the capacities need wide windows
    let mut m = gen::ConfigMenu::all_transports();
    m.window = gen::WindowSize::Wide;
    m.pin_cap = 130;
    m
}

fn sig(_c: &StreamCase, reason: &str) -> String {
    let kind = if reason.contains("dropped") {
        "dropped"
    } else if reason.contains("recoloured") {
        "recoloured"
    } else if reason.contains("duplicated") {
        "duplicated"
    } else if reason.contains("panicked") {
        "panic"
    } else {
        "other"
    };
    format!("c03:{}", kind)
}

pub fn run(ctx: &Ctx) -> Report {
    let mut rep = Report::new("C03", "exploration");
    let rc = measure_row_cap();
    let bc = measure_block_cap();
    rep.assumptions = vec![
        "iterators handed to draw_iter are fused; out-of-bounds pixels are expected to be discarded (C02), never compared through set_pixel".into(),
        format!("row capacity measured from the driver: {} pixels; block capacity measured: {} pixels", rc, bc),
    ];
    let mut sec = Section::new(
        &format!("streams[{}]", ctx.variant),
        "config x pixel stream assembled from segments (runs with lengths around the row/block capacities 49..51/99..101/149..151/200, stacked equal rows, ragged rows, right-to-left, vertical, scatter, repeated positions, trailing single pixel, 10% with out-of-bounds points); differential oracle: twin display driven by set_pixel per in-bounds pixel in order, all cells compared, plus the reference image; non-trivial = a run longer than the measured row capacity, or stacked mergeable rows, or a repeated position",
    );
    sec.extra.insert("measured_row_capacity".into(), serde_json::json!(rc));
    sec.extra.insert("measured_block_capacity".into(), serde_json::json!(bc));
    let n = ctx.cases(200_000, 4_000_000);
    run_generated(&mut sec, ctx.seed, n, ctx.workers, || strategy(wide_menu(), 6), check, sig);
    rep.sections.push(sec);
    if ctx.tier == Tier::Thorough {
        let mut sec = Section::new(&format!("long-streams[{}]", ctx.variant), "as streams, up to 24 segments (thousands of pixels)");
        run_generated(&mut sec, ctx.seed ^ 3, ctx.cases(0, 300_000), ctx.workers, || strategy(wide_menu(), 24), check, sig);
        rep.sections.push(sec);
    }
    rep
}

pub fn replay(_section: &str, case: &Value) -> Result<(), String> {
    check(&de::<StreamCase>(case)?, &mut CaseInfo::default())
}

//! C13 — sleep state tracking and 120 ms sleep-in/out spacing hold over any history.

use super::{de, Ctx};
use crate::dut::{build, new_world, type_compatible};
use crate::gen::{self, supported};
use crate::runner::*;
use crate::types::*;
use proptest::prelude::*;
use serde::{Deserialize, Serialize};
use serde_json::Value;

#[derive(Clone, Debug, PartialEq, Eq, Hash, Serialize, Deserialize)]
pub enum HOp {
    Sleep,
    Wake,
    /// sleep() / wake() whose very first low-level operation fails (nothing reaches the controller)
    FailedSleep,
    FailedWake,
    /// sleep() / wake() whose k-th low-level operation fails (the D/C write, the transfer of the command
    /// byte, a data pin, a strobe ...)
    FailedSleepAt(u8),
    FailedWakeAt(u8),
    Pixel { x: u16, y: u16, seed: u32 },
    Fill { seed: u32 },
    Orient(Orient),
    ScrollRegion(u16, u16),
    ScrollOffset(u16),
    Tearing(u8),
    Query,
}

#[derive(Clone, Debug, PartialEq, Eq, Hash, Serialize, Deserialize)]
pub struct HistCase {
    pub cfg: Config,
    pub ops: Vec<HOp>,
}

const MS120: u64 = 120_000_000;

pub fn check(c: &HistCase, info: &mut CaseInfo) -> Result<(), String> {
    let cfg = &c.cfg;
    let w = new_world(cfg);
    let mut d = build(cfg, &w).map_err(|e| format!("init failed: {:?}", e))?;
    let mut model_sleeping = false;
    let agree = |d: &dyn crate::dut::Dut, model: bool, when: &str| -> Result<(), String> {
        let wb = d.world();
        let p = wb.borrow().panel.sleeping;
        if d.is_sleeping() != model {
            return Err(format!("{}: is_sleeping() = {}, but the last successful of init/sleep/wake says {}", when, d.is_sleeping(), model));
        }
        if p != model {
            return Err(format!("{}: the controller is {} according to the commands sent, is_sleeping() = {}", when, if p { "asleep" } else { "awake" }, d.is_sleeping()));
        }
        Ok(())
    };
    agree(&*d, false, "after init")?;
    // init: every sleep command followed by >= 120 ms before the next command / the return
    let spacing = |w: &crate::rig::World, when: &str| -> Result<(), String> {
        let log = &w.panel.sleep_log;
        for pair in log.windows(2) {
            if pair[1].1 < pair[0].1 + MS120 {
                return Err(format!(
                    "{}: commands {:#x} and {:#x} issued {} us apart (at least 120000 required)",
                    when,
                    pair[0].0,
                    pair[1].0,
                    (pair[1].1 - pair[0].1) / 1000
                ));
            }
        }
        if let Some((op, t)) = log.last() {
            if w.now_ns < t + MS120 {
                return Err(format!("{}: call returned {} us after command {:#x} (at least 120000 required)", when, (w.now_ns - t) / 1000, op));
            }
        }
        Ok(())
    };
    spacing(&w.borrow(), "init")?;
    let (mut seen_sleep, mut transitions, mut repeats) = (false, 0, 0);
    let mut failed_calls = 0;
    let mut orient = cfg.orient;
    for (i, op) in c.ops.iter().enumerate() {
        let when = format!("step {} {:?}", i, op);
        match op {
            HOp::Sleep => {
                let n0 = w.borrow().panel.sleep_log.len();
                d.sleep().map_err(|e| format!("{}: {:?}", when, e))?;
                if model_sleeping {
                    repeats += 1;
                } else if seen_sleep || i > 0 {
                    transitions += 1;
                }
                model_sleeping = true;
                seen_sleep = true;
                let wb = w.borrow();
                let _ = n0;
                spacing(&wb, &when)?;
            }
            HOp::Wake => {
                let n0 = w.borrow().panel.sleep_log.len();
                d.wake().map_err(|e| format!("{}: {:?}", when, e))?;
                if !model_sleeping {
                    repeats += 1;
                } else {
                    transitions += 1;
                }
                model_sleeping = false;
                let wb = w.borrow();
                let _ = n0;
                spacing(&wb, &when)?;
            }
            HOp::FailedSleep | HOp::FailedWake => {
                let (ops0, n0) = {
                    let mut wb = w.borrow_mut();
                    let o = wb.ops;
                    wb.fail_at = vec![o];
                    (o, wb.panel.sleep_log.len())
                };
                let r = if matches!(op, HOp::FailedSleep) { d.sleep() } else { d.wake() };
                w.borrow_mut().fail_at.clear();
                if r.is_ok() {
                    if w.borrow().ops == ops0 {
                        // the call needed no pin or bus operation at all (e.g. the display already is in
                        // the requested state), so nothing could fail: it is a successful sleep / wake
                        model_sleeping = matches!(op, HOp::FailedSleep);
                        agree(&*d, model_sleeping, &when)?;
                        continue;
                    }
                    return Err(format!("{}: the first bus operation failed but the call returned Ok", when));
                }
                let wb = w.borrow();
                if wb.panel.sleep_log.len() != n0 {
                    return Err(format!("{}: a sleep command reached the controller although operation {} failed", when, ops0));
                }
                failed_calls += 1;
            }
            HOp::FailedSleepAt(k) | HOp::FailedWakeAt(k) => {
                let to_sleep = matches!(op, HOp::FailedSleepAt(_));
                let (armed, n0) = {
                    let mut wb = w.borrow_mut();
                    let a = wb.ops + *k as u64;
                    wb.fail_at = vec![a];
                    (a, wb.panel.sleep_log.len())
                };
                let r = if to_sleep { d.sleep() } else { d.wake() };
                w.borrow_mut().fail_at.clear();
                let (reached, delivered) = {
                    let wb = w.borrow();
                    (wb.ops > armed, wb.panel.sleep_log.len() != n0)
                };
                match r {
                    // the call succeeded as far as its caller can tell (whether or not the armed operation was reached)
                    Ok(()) => {
                        model_sleeping = to_sleep;
                        if reached {
                            failed_calls += 1;
                        }
                    }
                    Err(_) if !reached => return Err(format!("{}: returned an error although no operation failed", when)),
                    Err(_) if !delivered => {
                        // nothing reached the controller: neither the flag nor the controller may have changed
                        failed_calls += 1;
                    }
                    Err(_) => {
                        // the command was delivered and a later operation of the call failed: the two clauses
                        // of the property cannot both be met from here on (see DESIGN.md, C13e); the history ends
                        info.label("history-ends-at-torn-call");
                        info.nontrivial = transitions > 0 || repeats > 0;
                        return Ok(());
                    }
                }
                spacing(&w.borrow(), &when).or_else(|e| if reached { Ok(()) } else { Err(e) })?;
            }
            HOp::Pixel { x, y, seed } => {
                let (lw, lh) = cfg.logical_size(orient);
                d.set_pixel((*x as u32 % lw) as u16, (*y as u32 % lh) as u16, colour_of(*seed, 0, d.bits())).map_err(|e| format!("{}: {:?}", when, e))?;
            }
            HOp::Fill { seed } => {
                d.fill_solid(&Rect { x: 0, y: 0, w: 2, h: 2 }, colour_of(*seed, 0, d.bits())).map_err(|e| format!("{}: {:?}", when, e))?;
            }
            HOp::Orient(o) => {
                d.set_orientation(*o).map_err(|e| format!("{}: {:?}", when, e))?;
                orient = *o;
            }
            HOp::ScrollRegion(a, b) => d.set_vertical_scroll_region(*a, *b).map_err(|e| format!("{}: {:?}", when, e))?,
            HOp::ScrollOffset(o) => d.set_vertical_scroll_offset(*o).map_err(|e| format!("{}: {:?}", when, e))?,
            HOp::Tearing(t) => d.set_tearing_effect(*t).map_err(|e| format!("{}: {:?}", when, e))?,
            HOp::Query => {}
        }
        agree(&*d, model_sleeping, &when)?;
    }
    spacing(&w.borrow(), "end of history")?;
    info.nontrivial = transitions > 0 || repeats > 0;
    if transitions > 1 {
        info.label("sleep<->wake");
    }
    if repeats > 0 {
        info.label("repeated-sleep-or-wake");
    }
    if failed_calls > 0 {
        info.label("failed-sleep-or-wake-in-history");
    }
    info.label(cfg.transport.label());
    if cfg.reset_pin {
        info.label("reset-pin");
    }
    Ok(())
}

pub fn strategy() -> BoxedStrategy<HistCase> {
    let mut menu = gen::ConfigMenu::all_transports();
    menu.window = gen::WindowSize::Small;
    let op = prop_oneof![
        4 => Just(HOp::Sleep),
        4 => Just(HOp::Wake),
        1 => Just(HOp::FailedSleep),
        1 => Just(HOp::FailedWake),
        1 => (0u8..6).prop_map(HOp::FailedSleepAt),
        1 => (0u8..6).prop_map(HOp::FailedWakeAt),
        2 => (any::<u16>(), any::<u16>(), any::<u32>()).prop_map(|(x, y, seed)| HOp::Pixel { x, y, seed }),
        1 => any::<u32>().prop_map(|seed| HOp::Fill { seed }),
        2 => gen::orient().prop_map(HOp::Orient),
        1 => (0u16..400, 0u16..400).prop_map(|(a, b)| HOp::ScrollRegion(a, b)),
        1 => any::<u16>().prop_map(HOp::ScrollOffset),
        1 => (0u8..3).prop_map(HOp::Tearing),
        1 => Just(HOp::Query),
    ];
    (gen::config(menu), any::<bool>(), proptest::collection::vec(op, 0..=24))
        .prop_map(|(mut cfg, rst, ops)| {
            cfg.reset_pin = rst;
            debug_assert!(type_compatible(cfg.model, cfg.transport) && supported(cfg.model, cfg.transport.kind()));
            HistCase { cfg, ops }
        })
        .boxed()
}

fn sig(_c: &HistCase, reason: &str) -> String {
    let kind = if reason.contains("is_sleeping") {
        "flag"
    } else if reason.contains("apart") || reason.contains("returned") {
        "spacing"
    } else if reason.contains("() sent") {
        "wrong-command"
    } else {
        "other"
    };
    format!("c13:{}", kind)
}

pub fn run(ctx: &Ctx) -> Report {
    let mut rep = Report::new("C13", "exploration");
    rep.assumptions = vec!["virtual clock advanced only by the injected DelayNs; bus operations take no time (worst case for spacing)".into()];
    let mut sec = Section::new(
        &format!("histories[{}]", ctx.variant),
        "init of any model on any transport (with or without reset pin), then 0..24 operations over {sleep, wake, sleep/wake whose first bus operation fails, set_pixel, fill_solid, set_orientation, scroll region/offset, tearing, query}; after every step: reference flag == is_sleeping() == sleep state of the simulated controller; every 0x10/0x11 is followed by >= 120 ms before the call returns and before the next of them; non-trivial = history has a sleep/wake transition or a repeated sleep/wake",
    );
    run_generated(&mut sec, ctx.seed, ctx.cases(300_000, 8_000_000), ctx.workers, strategy, check, sig);
    rep.sections.push(sec);
    rep
}

pub fn replay(_section: &str, case: &Value) -> Result<(), String> {
    check(&de::<HistCase>(case)?, &mut CaseInfo::default())
}

//! Verification harness for almindor/mipidsi: generated-input checks of properties C01..C20.
pub mod dut;
pub mod exec;
pub mod fuzzdec;
pub mod gen;
pub mod models;
pub mod oracle;
pub mod panel;
pub mod props;
pub mod rig;
pub mod runner;
pub mod types;
/// shared with the 16-bit runner (/verif/harness16)
#[path = "../../harness16/src/shared.rs"]
pub mod shared16;

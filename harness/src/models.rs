//! The model menu: all built-in models, a copy of the external model from tests/external.rs and
//! parametric external models for extreme framebuffer sizes.

use embedded_graphics_core::pixelcolor::{Rgb565, Rgb666};
use embedded_graphics_core::prelude::RgbColor;
use embedded_hal::delay::DelayNs;
use mipidsi::dcs::{
    BitsPerPixel, EnterNormalMode, ExitSleepMode, InterfaceExt, PixelFormat, SetAddressMode,
    SetDisplayOn, SetInvertMode, SetPixelFormat,
};
use mipidsi::interface::Interface;
use mipidsi::models::{self as mm, Model, ModelInitError};
use mipidsi::options::ModelOptions;
use std::marker::PhantomData;

/// Colour types the harness can drive: conversion from/to a raw integer written with
/// `RgbColor::new` / the channel getters only (independent of the crate's byte conversions).
pub trait HColor: RgbColor + Copy + 'static {
    const BITS: u32;
    fn from_raw(v: u32) -> Self;
    fn to_raw(self) -> u32;
}
impl HColor for Rgb565 {
    const BITS: u32 = 16;
    fn from_raw(v: u32) -> Self {
        Rgb565::new(((v >> 11) & 31) as u8, ((v >> 5) & 63) as u8, (v & 31) as u8)
    }
    fn to_raw(self) -> u32 {
        ((self.r() as u32) << 11) | ((self.g() as u32) << 5) | self.b() as u32
    }
}
impl HColor for Rgb666 {
    const BITS: u32 = 18;
    fn from_raw(v: u32) -> Self {
        Rgb666::new(((v >> 12) & 63) as u8, ((v >> 6) & 63) as u8, (v & 63) as u8)
    }
    fn to_raw(self) -> u32 {
        ((self.r() as u32) << 12) | ((self.g() as u32) << 6) | self.b() as u32
    }
}

/// External model in the style of tests/external.rs
pub struct ExternalST7789;

impl Model for ExternalST7789 {
    type ColorFormat = Rgb565;
    const FRAMEBUFFER_SIZE: (u16, u16) = (240, 320);

    fn init<DELAY, DI>(
        &mut self,
        di: &mut DI,
        delay: &mut DELAY,
        options: &ModelOptions,
    ) -> Result<SetAddressMode, ModelInitError<DI::Error>>
    where
        DELAY: DelayNs,
        DI: Interface,
    {
        let madctl = SetAddressMode::from(options);
        delay.delay_us(150_000);
        di.write_command(ExitSleepMode)?;
        delay.delay_us(10_000);
        di.write_command(madctl)?;
        di.write_command(SetInvertMode::new(options.invert_colors))?;
        let pf = PixelFormat::with_all(BitsPerPixel::from_rgb_color::<Self::ColorFormat>());
        di.write_command(SetPixelFormat::new(pf))?;
        delay.delay_us(10_000);
        di.write_command(EnterNormalMode)?;
        delay.delay_us(10_000);
        di.write_command(SetDisplayOn)?;
        delay.delay_us(120_000);
        Ok(madctl)
    }
}

/// Parametric external model (arbitrary framebuffer size and colour type)
pub struct Ext<const FW: u16, const FH: u16, C>(PhantomData<C>);

impl<const FW: u16, const FH: u16, C> Default for Ext<FW, FH, C> {
    fn default() -> Self {
        Ext(PhantomData)
    }
}

impl<const FW: u16, const FH: u16, C: HColor> Model for Ext<FW, FH, C> {
    type ColorFormat = C;
    const FRAMEBUFFER_SIZE: (u16, u16) = (FW, FH);

    fn init<DELAY, DI>(
        &mut self,
        di: &mut DI,
        delay: &mut DELAY,
        options: &ModelOptions,
    ) -> Result<SetAddressMode, ModelInitError<DI::Error>>
    where
        DELAY: DelayNs,
        DI: Interface,
    {
        let madctl = SetAddressMode::from(options);
        delay.delay_us(120_000);
        di.write_command(ExitSleepMode)?;
        delay.delay_us(120_000);
        di.write_command(madctl)?;
        di.write_command(SetInvertMode::new(options.invert_colors))?;
        let pf = PixelFormat::with_all(BitsPerPixel::from_rgb_color::<C>());
        di.write_command(SetPixelFormat::new(pf))?;
        di.write_command(EnterNormalMode)?;
        di.write_command(SetDisplayOn)?;
        Ok(madctl)
    }
}

/// External model for a glass with a BGR colour filter: its init programs - and returns - an
/// address mode whose colour-order bit is the inverse of the option (the `Model` contract lets
/// init return "the value of MADCTL set by init")
pub struct ExtInvertedBgr;

impl Model for ExtInvertedBgr {
    type ColorFormat = Rgb565;
    const FRAMEBUFFER_SIZE: (u16, u16) = (48, 32);

    fn init<DELAY, DI>(
        &mut self,
        di: &mut DI,
        delay: &mut DELAY,
        options: &ModelOptions,
    ) -> Result<SetAddressMode, ModelInitError<DI::Error>>
    where
        DELAY: DelayNs,
        DI: Interface,
    {
        use mipidsi::options::ColorOrder;
        let flipped = match options.color_order {
            ColorOrder::Rgb => ColorOrder::Bgr,
            ColorOrder::Bgr => ColorOrder::Rgb,
        };
        let madctl = SetAddressMode::from(options).with_color_order(flipped);
        delay.delay_us(120_000);
        di.write_command(ExitSleepMode)?;
        delay.delay_us(120_000);
        di.write_command(madctl)?;
        di.write_command(SetInvertMode::new(options.invert_colors))?;
        let pf = PixelFormat::with_all(BitsPerPixel::from_rgb_color::<Rgb565>());
        di.write_command(SetPixelFormat::new(pf))?;
        di.write_command(SetDisplayOn)?;
        Ok(madctl)
    }
}

macro_rules! model_menu {
    ( $( $id:ident : $ty:ty = $ctor:expr, $name:expr, ($fw:expr, $fh:expr), $bits:expr, builtin=$bi:expr ; )* ) => {
        #[derive(Clone, Copy, Debug, PartialEq, Eq, Hash, PartialOrd, Ord)]
        pub enum ModelId { $( $id, )* }

        pub const ALL_MODELS: &[ModelId] = &[ $( ModelId::$id, )* ];

        impl ModelId {
            pub fn name(self) -> &'static str { match self { $( ModelId::$id => $name, )* } }
            /// frozen framebuffer size (from the controller data sheets / the model menu)
            pub fn fb(self) -> (u16, u16) { match self { $( ModelId::$id => ($fw, $fh), )* } }
            /// bits per pixel of the model's colour type
            pub fn bits(self) -> u32 { match self { $( ModelId::$id => $bits, )* } }
            pub fn builtin(self) -> bool { match self { $( ModelId::$id => $bi, )* } }
            pub fn from_name(s: &str) -> Option<ModelId> {
                match s { $( $name => Some(ModelId::$id), )* _ => None }
            }
        }

        /// Visitor over model types whose colour can be sent over an 8-bit word interface
        pub trait ModelVisitor {
            type Out;
            fn visit<M>(self, id: ModelId, m: M) -> Self::Out
            where
                M: Model + 'static,
                M::ColorFormat: HColor + mipidsi::interface::InterfacePixelFormat<u8>;
        }

        pub fn dispatch_model<V: ModelVisitor>(id: ModelId, v: V) -> V::Out {
            match id { $( ModelId::$id => v.visit::<$ty>(id, $ctor), )* }
        }
    };
}

model_menu! {
    GC9107: mm::GC9107 = mm::GC9107, "GC9107", (128, 160), 16, builtin=true;
    GC9A01: mm::GC9A01 = mm::GC9A01, "GC9A01", (240, 240), 16, builtin=true;
    ILI9341Rgb565: mm::ILI9341Rgb565 = mm::ILI9341Rgb565, "ILI9341Rgb565", (240, 320), 16, builtin=true;
    ILI9341Rgb666: mm::ILI9341Rgb666 = mm::ILI9341Rgb666, "ILI9341Rgb666", (240, 320), 18, builtin=true;
    ILI9342CRgb565: mm::ILI9342CRgb565 = mm::ILI9342CRgb565, "ILI9342CRgb565", (320, 240), 16, builtin=true;
    ILI9342CRgb666: mm::ILI9342CRgb666 = mm::ILI9342CRgb666, "ILI9342CRgb666", (320, 240), 18, builtin=true;
    ILI9486Rgb565: mm::ILI9486Rgb565 = mm::ILI9486Rgb565, "ILI9486Rgb565", (320, 480), 16, builtin=true;
    ILI9486Rgb666: mm::ILI9486Rgb666 = mm::ILI9486Rgb666, "ILI9486Rgb666", (320, 480), 18, builtin=true;
    ILI9488Rgb565: mm::ILI9488Rgb565 = mm::ILI9488Rgb565, "ILI9488Rgb565", (320, 480), 16, builtin=true;
    ILI9488Rgb666: mm::ILI9488Rgb666 = mm::ILI9488Rgb666, "ILI9488Rgb666", (320, 480), 18, builtin=true;
    RM67162: mm::RM67162 = mm::RM67162, "RM67162", (240, 536), 16, builtin=true;
    ST7735s: mm::ST7735s = mm::ST7735s, "ST7735s", (132, 162), 16, builtin=true;
    ST7789: mm::ST7789 = mm::ST7789, "ST7789", (240, 320), 16, builtin=true;
    ST7796: mm::ST7796 = mm::ST7796, "ST7796", (320, 480), 16, builtin=true;
    ExtST7789: ExternalST7789 = ExternalST7789, "ExtST7789", (240, 320), 16, builtin=false;
    EInvBgr: ExtInvertedBgr = ExtInvertedBgr, "ExtInvertedBgr48x32", (48, 32), 16, builtin=false;
    E1x1: Ext<1, 1, Rgb565> = Ext::default(), "Ext1x1", (1, 1), 16, builtin=false;
    E2x3: Ext<2, 3, Rgb666> = Ext::default(), "Ext2x3", (2, 3), 18, builtin=false;
    E7x5: Ext<7, 5, Rgb565> = Ext::default(), "Ext7x5", (7, 5), 16, builtin=false;
    E300x200: Ext<300, 200, Rgb666> = Ext::default(), "Ext300x200", (300, 200), 18, builtin=false;
    EWide: Ext<65535, 1, Rgb565> = Ext::default(), "Ext65535x1", (65535, 1), 16, builtin=false;
    ETall: Ext<1, 65535, Rgb565> = Ext::default(), "Ext1x65535", (1, 65535), 16, builtin=false;
    EHuge: Ext<65535, 65535, Rgb666> = Ext::default(), "Ext65535x65535", (65535, 65535), 18, builtin=false;
    EHuge565: Ext<65535, 65535, Rgb565> = Ext::default(), "Ext65535x65535_565", (65535, 65535), 16, builtin=false;
}

/// Visitor over Rgb565 models (usable on 16-bit word interfaces)
pub trait Model565Visitor {
    type Out;
    fn visit<M>(self, id: ModelId, m: M) -> Self::Out
    where
        M: Model<ColorFormat = Rgb565> + 'static;
}

pub fn dispatch_model565<V: Model565Visitor>(id: ModelId, v: V) -> Option<V::Out> {
    Some(match id {
        ModelId::GC9107 => v.visit(id, mm::GC9107),
        ModelId::GC9A01 => v.visit(id, mm::GC9A01),
        ModelId::ILI9341Rgb565 => v.visit(id, mm::ILI9341Rgb565),
        ModelId::ILI9342CRgb565 => v.visit(id, mm::ILI9342CRgb565),
        ModelId::ILI9486Rgb565 => v.visit(id, mm::ILI9486Rgb565),
        ModelId::ILI9488Rgb565 => v.visit(id, mm::ILI9488Rgb565),
        ModelId::RM67162 => v.visit(id, mm::RM67162),
        ModelId::ST7735s => v.visit(id, mm::ST7735s),
        ModelId::ST7789 => v.visit(id, mm::ST7789),
        ModelId::ST7796 => v.visit(id, mm::ST7796),
        ModelId::ExtST7789 => v.visit(id, ExternalST7789),
        ModelId::EInvBgr => v.visit(id, ExtInvertedBgr),
        ModelId::E1x1 => v.visit(id, Ext::<1, 1, Rgb565>::default()),
        ModelId::E7x5 => v.visit(id, Ext::<7, 5, Rgb565>::default()),
        ModelId::EWide => v.visit(id, Ext::<65535, 1, Rgb565>::default()),
        ModelId::ETall => v.visit(id, Ext::<1, 65535, Rgb565>::default()),
        ModelId::EHuge565 => v.visit(id, Ext::<65535, 65535, Rgb565>::default()),
        _ => return None,
    })
}

pub fn builtin_models() -> Vec<ModelId> {
    ALL_MODELS.iter().copied().filter(|m| m.builtin()).collect()
}

/// `impl Model for X` declarations found in /repo/src/models/*.rs (to notice a model the menu lacks)
pub fn scan_repo_models() -> Vec<String> {
    let mut out = Vec::new();
    if let Ok(rd) = std::fs::read_dir("/repo/src/models") {
        let mut files: Vec<_> = rd.filter_map(|e| e.ok()).map(|e| e.path()).collect();
        files.sort();
        for p in files {
            if let Ok(s) = std::fs::read_to_string(&p) {
                for line in s.lines() {
                    let l = line.trim();
                    if let Some(rest) = l.strip_prefix("impl Model for ") {
                        let name: String = rest
                            .chars()
                            .take_while(|c| c.is_alphanumeric() || *c == '_')
                            .collect();
                        out.push(name);
                    }
                }
            }
        }
    }
    out
}

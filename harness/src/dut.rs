//! Device under test behind a plain-data facade: one generic implementation over
//! `Display<DI, M, RST>`, and `build` which picks the concrete types from a `Config`.

use crate::models::{dispatch_model, dispatch_model565, HColor, Model565Visitor, ModelId, ModelVisitor};
use crate::rig::*;
use crate::types::*;
use embedded_graphics_core::draw_target::DrawTarget;
use embedded_graphics_core::geometry::{Dimensions, OriginDimensions, Point};
use embedded_graphics_core::pixelcolor::Rgb565;
use embedded_graphics_core::Pixel;
use embedded_hal::digital::OutputPin;
use mipidsi::interface::{
    Generic16BitBus, Generic8BitBus, Interface, InterfacePixelFormat, ParallelError, ParallelInterface, SpiError,
    SpiInterface,
};
use mipidsi::models::Model;
use mipidsi::options::{
    ColorInversion, ColorOrder, HorizontalRefreshOrder, RefreshOrder, TearingEffect, VerticalRefreshOrder,
};
use mipidsi::{Builder, ConfigurationError, Display, InitError};
use std::panic::{catch_unwind, AssertUnwindSafe};

/// What a failed call reported: the chain of error variants and the double that produced it
#[derive(Clone, Debug, PartialEq, Eq)]
pub struct BusErr {
    /// e.g. ["Interface", "Spi"] for InitError::Interface(SpiError::Spi(_))
    pub path: Vec<&'static str>,
    pub src: Src,
    pub budget: bool,
}

#[derive(Clone, Debug, PartialEq, Eq)]
pub enum DutErr {
    Bus(BusErr),
    InvalidDisplaySize,
    InvalidDisplayOffset,
    UnsupportedInterface,
    OtherConfig,
    /// the call panicked; message
    Panic(String),
}

pub type Res = Result<(), DutErr>;

pub trait ErrInfo {
    fn info(&self) -> BusErr;
}
impl ErrInfo for Fault {
    fn info(&self) -> BusErr {
        BusErr { path: vec![], src: self.src, budget: self.budget }
    }
}
impl ErrInfo for SpiError<Fault, Fault> {
    fn info(&self) -> BusErr {
        let (v, f) = match self {
            SpiError::Spi(f) => ("Spi", f),
            SpiError::Dc(f) => ("Dc", f),
        };
        BusErr { path: vec![v], src: f.src, budget: f.budget }
    }
}
impl ErrInfo for ParallelError<Fault, Fault, Fault> {
    fn info(&self) -> BusErr {
        let (v, f) = match self {
            ParallelError::Bus(f) => ("Bus", f),
            ParallelError::Dc(f) => ("Dc", f),
            ParallelError::Wr(f) => ("Wr", f),
        };
        BusErr { path: vec![v], src: f.src, budget: f.budget }
    }
}

thread_local! {
    static LAST_PANIC: std::cell::RefCell<String> = std::cell::RefCell::new(String::new());
}

/// Install a silent panic hook that remembers the message (once per process).
pub fn install_panic_hook() {
    static ONCE: std::sync::Once = std::sync::Once::new();
    ONCE.call_once(|| {
        if std::env::var("VERIF_LOUD_PANICS").is_ok() {
            return; // development: keep the default hook (prints message and location)
        }
        std::panic::set_hook(Box::new(|info| {
            let msg = if let Some(s) = info.payload().downcast_ref::<&str>() {
                s.to_string()
            } else if let Some(s) = info.payload().downcast_ref::<String>() {
                s.clone()
            } else {
                "panic".to_string()
            };
            let loc = info
                .location()
                .map(|l| format!(" at {}:{}", l.file(), l.line()))
                .unwrap_or_default();
            LAST_PANIC.with(|p| *p.borrow_mut() = format!("{}{}", msg, loc));
            if let Ok(mut g) = GLOBAL_LAST_PANIC.lock() {
                *g = format!("{}{}", msg, loc);
            }
        }));
    });
}

static GLOBAL_LAST_PANIC: std::sync::Mutex<String> = std::sync::Mutex::new(String::new());

/// message of the most recent panic in any thread (for reporting a panic of the harness itself)
pub fn last_panic() -> String {
    GLOBAL_LAST_PANIC.lock().map(|g| g.clone()).unwrap_or_default()
}

pub fn guard<T>(f: impl FnOnce() -> Result<T, DutErr>) -> Result<T, DutErr> {
    match catch_unwind(AssertUnwindSafe(f)) {
        Ok(r) => r,
        Err(_) => Err(DutErr::Panic(LAST_PANIC.with(|p| p.borrow().clone()))),
    }
}

/// Colour stream with a pull counter and a pull budget (an infinite stream consumed without
/// bound becomes a detectable failure, not a hang).
pub struct ColourStream<'a> {
    pub seed: u32,
    pub bits: u32,
    pub len: StreamLen,
    pub k: u64,
    pub pulls: &'a std::cell::Cell<u64>,
    pub budget: u64,
}

impl<'a> Iterator for ColourStream<'a> {
    type Item = u32;
    fn next(&mut self) -> Option<u32> {
        self.pulls.set(self.pulls.get() + 1);
        if self.pulls.get() > self.budget {
            panic!("HARNESS-BUDGET: colour stream pulled more than {} times", self.budget);
        }
        if let StreamLen::Finite(l) = self.len {
            if self.k >= l {
                return None;
            }
        }
        let c = colour_of(self.seed, self.k, self.bits);
        self.k += 1;
        Some(c)
    }
    // half of the streams report their exact remaining length, like slices and ranges do; the others
    // report the default (0, None), like from_fn / filter chains
    fn size_hint(&self) -> (usize, Option<usize>) {
        if self.seed % 3 == 2 {
            // like `once(c).chain(decoder)` or a peeked stream: a small positive lower bound, no upper bound
            let rem = match self.len {
                StreamLen::Finite(l) => l.saturating_sub(self.k),
                StreamLen::Infinite => u64::MAX,
            };
            return (rem.min(1 + (self.seed as u64 >> 3) % 5) as usize, None);
        }
        match self.len {
            StreamLen::Finite(l) if self.seed & 1 == 1 => {
                let rem = l.saturating_sub(self.k);
                if rem <= usize::MAX as u64 {
                    (rem as usize, Some(rem as usize))
                } else {
                    (usize::MAX, None)
                }
            }
            StreamLen::Infinite if self.seed & 1 == 1 => (usize::MAX, None),
            _ => (0, None),
        }
    }
    // O(1) skip, like slices / ranges / repeat have
    fn nth(&mut self, n: usize) -> Option<u32> {
        self.pulls.set(self.pulls.get() + 1);
        if self.pulls.get() > self.budget {
            panic!("HARNESS-BUDGET: colour stream pulled more than {} times", self.budget);
        }
        let target = self.k.saturating_add(n as u64);
        if let StreamLen::Finite(l) = self.len {
            if target >= l {
                self.k = l;
                return None;
            }
        }
        self.k = target;
        let c = colour_of(self.seed, self.k, self.bits);
        self.k += 1;
        Some(c)
    }
}

/// `colours.map(from_raw)` without losing the inner iterator's O(1) `nth` (`Map` does not forward it)
pub struct ToColour<'a, C> {
    inner: &'a mut dyn Iterator<Item = u32>,
    _p: std::marker::PhantomData<C>,
}
impl<'a, C: HColor> ToColour<'a, C> {
    pub fn new(inner: &'a mut dyn Iterator<Item = u32>) -> Self {
        ToColour { inner, _p: std::marker::PhantomData }
    }
}
impl<'a, C: HColor> Iterator for ToColour<'a, C> {
    type Item = C;
    fn next(&mut self) -> Option<C> {
        self.inner.next().map(C::from_raw)
    }
    fn size_hint(&self) -> (usize, Option<usize>) {
        self.inner.size_hint()
    }
    fn nth(&mut self, n: usize) -> Option<C> {
        self.inner.nth(n).map(C::from_raw)
    }
}

pub trait Dut {
    fn bits(&self) -> u32;
    fn set_pixel(&mut self, x: u16, y: u16, c: u32) -> Res;
    fn set_pixels(&mut self, sx: u16, sy: u16, ex: u16, ey: u16, colours: &mut dyn Iterator<Item = u32>) -> Res;
    fn draw_iter(&mut self, px: &mut dyn Iterator<Item = (i32, i32, u32)>) -> Res;
    fn fill_contiguous(&mut self, rect: &Rect, colours: &mut dyn Iterator<Item = u32>) -> Res;
    fn fill_solid(&mut self, rect: &Rect, c: u32) -> Res;
    fn clear(&mut self, c: u32) -> Res;
    fn set_orientation(&mut self, o: Orient) -> Res;
    fn orientation(&self) -> Orient;
    fn size(&self) -> (u32, u32);
    fn bounding_box(&self) -> Rect;
    fn set_vertical_scroll_region(&mut self, top: u16, bottom: u16) -> Res;
    fn set_vertical_scroll_offset(&mut self, off: u16) -> Res;
    /// 0 = off, 1 = vertical, 2 = horizontal and vertical
    fn set_tearing_effect(&mut self, te: u8) -> Res;
    fn sleep(&mut self) -> Res;
    fn wake(&mut self) -> Res;
    fn is_sleeping(&self) -> bool;
    fn draw_test_image(&mut self) -> Res;
    fn world(&self) -> W;

    /// run one drawing call of a program
    fn run(&mut self, op: &DrawOp, pulls: &std::cell::Cell<u64>) -> Res {
        let bits = self.bits();
        match op {
            DrawOp::SetPixel { x, y, seed } => self.set_pixel(*x, *y, colour_of(*seed, 0, bits)),
            DrawOp::SetPixels { sx, sy, ex, ey, n, seed } => {
                let mut s = ColourStream {
                    seed: *seed,
                    bits,
                    len: StreamLen::Finite(*n as u64),
                    k: 0,
                    pulls,
                    budget: *n as u64 + 64,
                };
                self.set_pixels(*sx, *sy, *ex, *ey, &mut s)
            }
            DrawOp::DrawIter { pts, seed } => {
                let seed = *seed;
                let mut it = pts
                    .iter()
                    .enumerate()
                    .map(move |(k, (x, y))| (*x, *y, colour_of(seed, k as u64, bits)));
                self.draw_iter(&mut it)
            }
            DrawOp::FillContiguous { rect, len, seed } => {
                // a correct implementation pulls at most one colour per point of the rectangle
                // (clipped points are skipped by pulling or by nth); 2*area+64 is generous
                let budget = rect.area().saturating_mul(2).saturating_add(64);
                let mut s = ColourStream { seed: *seed, bits, len: *len, k: 0, pulls, budget };
                self.fill_contiguous(rect, &mut s)
            }
            DrawOp::FillSolid { rect, seed } => self.fill_solid(rect, colour_of(*seed, 0, bits)),
            DrawOp::Clear { seed } => self.clear(colour_of(*seed, 0, bits)),
        }
    }
}

/// a pixel stream whose `size_hint` is exact (0), unknown (1), a loose upper bound (2) or a small
/// lower bound without an upper one (3) - all of them legal for an Iterator
pub struct HintedPixels<I> {
    pub inner: I,
    pub flavour: u8,
}

impl<I: Iterator> Iterator for HintedPixels<I> {
    type Item = I::Item;
    fn next(&mut self) -> Option<I::Item> {
        self.inner.next()
    }
    fn size_hint(&self) -> (usize, Option<usize>) {
        let (lo, hi) = self.inner.size_hint();
        match self.flavour {
            0 => (lo, hi),
            1 => (0, None),
            2 => (0, hi.map(|h| h.saturating_add(7))),
            _ => (lo.min(2), None),
        }
    }
}

pub struct DutImpl<DI, M, RST>
where
    DI: Interface,
    M: Model,
    M::ColorFormat: InterfacePixelFormat<DI::Word>,
    RST: OutputPin,
{
    pub d: Display<DI, M, RST>,
    pub w: W,
}

macro_rules! light_methods {
    () => {
        fn bits(&self) -> u32 {
            <M::ColorFormat as HColor>::BITS
        }
        fn set_pixel(&mut self, x: u16, y: u16, c: u32) -> Res {
            let r = guard(|| {
                self.d
                    .set_pixel(x, y, M::ColorFormat::from_raw(c))
                    .map_err(|e| DutErr::Bus(e.info()))
            });
            self.w.borrow_mut().flush();
            r
        }
        fn fill_solid(&mut self, rect: &Rect, c: u32) -> Res {
            let r = guard(|| {
                self.d
                    .fill_solid(&rect.to_eg(), M::ColorFormat::from_raw(c))
                    .map_err(|e| DutErr::Bus(e.info()))
            });
            self.w.borrow_mut().flush();
            r
        }
        fn clear(&mut self, c: u32) -> Res {
            let r = guard(|| {
                self.d
                    .clear(M::ColorFormat::from_raw(c))
                    .map_err(|e| DutErr::Bus(e.info()))
            });
            self.w.borrow_mut().flush();
            r
        }
        fn set_orientation(&mut self, o: Orient) -> Res {
            let r = guard(|| self.d.set_orientation(o.to_mipidsi()).map_err(|e| DutErr::Bus(e.info())));
            self.w.borrow_mut().flush();
            r
        }
        fn orientation(&self) -> Orient {
            Orient::from_mipidsi(self.d.orientation())
        }
        fn size(&self) -> (u32, u32) {
            let s = self.d.size();
            (s.width, s.height)
        }
        fn bounding_box(&self) -> Rect {
            let b = self.d.bounding_box();
            Rect { x: b.top_left.x, y: b.top_left.y, w: b.size.width, h: b.size.height }
        }
        fn set_vertical_scroll_region(&mut self, top: u16, bottom: u16) -> Res {
            let r = guard(|| {
                self.d
                    .set_vertical_scroll_region(top, bottom)
                    .map_err(|e| DutErr::Bus(e.info()))
            });
            self.w.borrow_mut().flush();
            r
        }
        fn set_vertical_scroll_offset(&mut self, off: u16) -> Res {
            let r = guard(|| self.d.set_vertical_scroll_offset(off).map_err(|e| DutErr::Bus(e.info())));
            self.w.borrow_mut().flush();
            r
        }
        fn set_tearing_effect(&mut self, te: u8) -> Res {
            let te = match te {
                0 => TearingEffect::Off,
                1 => TearingEffect::Vertical,
                _ => TearingEffect::HorizontalAndVertical,
            };
            let r = guard(|| self.d.set_tearing_effect(te).map_err(|e| DutErr::Bus(e.info())));
            self.w.borrow_mut().flush();
            r
        }
        fn sleep(&mut self) -> Res {
            let mut clk = Clock { w: self.w.clone() };
            let r = guard(|| self.d.sleep(&mut clk).map_err(|e| DutErr::Bus(e.info())));
            self.w.borrow_mut().flush();
            r
        }
        fn wake(&mut self) -> Res {
            let mut clk = Clock { w: self.w.clone() };
            let r = guard(|| self.d.wake(&mut clk).map_err(|e| DutErr::Bus(e.info())));
            self.w.borrow_mut().flush();
            r
        }
        fn is_sleeping(&self) -> bool {
            self.d.is_sleeping()
        }
        fn world(&self) -> W {
            self.w.clone()
        }
    };
}

impl<DI, M> Dut for DutImpl<DI, M, mipidsi::NoResetPin>
where
    DI: Interface,
    DI::Error: ErrInfo,
    M: Model,
    M::ColorFormat: HColor + InterfacePixelFormat<DI::Word>,
{
    light_methods!();

    fn set_pixels(&mut self, sx: u16, sy: u16, ex: u16, ey: u16, colours: &mut dyn Iterator<Item = u32>) -> Res {
        let r = guard(|| {
            self.d
                .set_pixels(sx, sy, ex, ey, ToColour::<M::ColorFormat>::new(colours))
                .map_err(|e| DutErr::Bus(e.info()))
        });
        self.w.borrow_mut().flush();
        r
    }
    fn draw_iter(&mut self, px: &mut dyn Iterator<Item = (i32, i32, u32)>) -> Res {
        // what the stream reports about its length varies with the stream (a pure function of its first
        // element): exact, unknown, a loose upper bound, or a small lower bound only
        let first = px.next();
        let flavour = match first {
            Some((x, y, c)) => (((x as u32).wrapping_mul(31) ^ (y as u32).wrapping_mul(17) ^ c ^ (c >> 7)) % 4) as u8,
            None => 0,
        };
        let it = HintedPixels { inner: first.into_iter().chain(px), flavour };
        let r = guard(|| {
            self.d
                .draw_iter(it.map(|(x, y, c)| Pixel(Point::new(x, y), M::ColorFormat::from_raw(c))))
                .map_err(|e| DutErr::Bus(e.info()))
        });
        self.w.borrow_mut().flush();
        r
    }
    fn fill_contiguous(&mut self, rect: &Rect, colours: &mut dyn Iterator<Item = u32>) -> Res {
        let r = guard(|| {
            self.d
                .fill_contiguous(&rect.to_eg(), ToColour::<M::ColorFormat>::new(colours))
                .map_err(|e| DutErr::Bus(e.info()))
        });
        self.w.borrow_mut().flush();
        r
    }
    fn draw_test_image(&mut self) -> Res {
        use embedded_graphics_core::Drawable;
        let r = guard(|| {
            mipidsi::TestImage::<M::ColorFormat>::new()
                .draw(&mut self.d)
                .map_err(|e| DutErr::Bus(e.info()))
        });
        self.w.borrow_mut().flush();
        r
    }
}

/// Displays built with a reset pin: the pin is only used during init, so (to keep the number of
/// monomorphised copies of the drawing code down) only the light-weight calls are wired up.
impl<DI, M> Dut for DutImpl<DI, M, Pin>
where
    DI: Interface,
    DI::Error: ErrInfo,
    M: Model,
    M::ColorFormat: HColor + InterfacePixelFormat<DI::Word>,
{
    light_methods!();

    fn set_pixels(&mut self, _: u16, _: u16, _: u16, _: u16, _: &mut dyn Iterator<Item = u32>) -> Res {
        panic!("HARNESS: set_pixels is not wired up for displays with a reset pin")
    }
    fn draw_iter(&mut self, _: &mut dyn Iterator<Item = (i32, i32, u32)>) -> Res {
        panic!("HARNESS: draw_iter is not wired up for displays with a reset pin")
    }
    fn fill_contiguous(&mut self, _: &Rect, _: &mut dyn Iterator<Item = u32>) -> Res {
        panic!("HARNESS: fill_contiguous is not wired up for displays with a reset pin")
    }
    fn draw_test_image(&mut self) -> Res {
        panic!("HARNESS: draw_test_image is not wired up for displays with a reset pin")
    }
}

fn opts<DI, M, RST>(b: Builder<DI, M, RST>, cfg: &Config) -> Builder<DI, M, RST>
where
    DI: Interface,
    M: Model,
    M::ColorFormat: InterfacePixelFormat<DI::Word>,
    RST: OutputPin,
{
    // the builder setters are independent of each other: apply them in an order that varies with the
    // configuration, so that an accidental dependency on the call order is exercised
    let mut b = b;
    let rot = (cfg.w as usize * 7 + cfg.h as usize * 3 + cfg.ox as usize + cfg.oy as usize * 5 + cfg.orient.index()) % 6;
    for i in 0..6 {
        b = match (i + rot) % 6 {
            0 => b.display_size(cfg.w, cfg.h),
            1 => b.display_offset(cfg.ox, cfg.oy),
            2 => b.orientation(cfg.orient.to_mipidsi()),
            3 => b.color_order(if cfg.bgr { ColorOrder::Bgr } else { ColorOrder::Rgb }),
            4 => b.invert_colors(if cfg.invert { ColorInversion::Inverted } else { ColorInversion::Normal }),
            _ => b.refresh_order(RefreshOrder::new(
                if cfg.refresh_v { VerticalRefreshOrder::BottomToTop } else { VerticalRefreshOrder::TopToBottom },
                if cfg.refresh_h { HorizontalRefreshOrder::RightToLeft } else { HorizontalRefreshOrder::LeftToRight },
            )),
        };
    }
    b
}

fn map_init_err<E: ErrInfo>(e: InitError<E, Fault>) -> DutErr {
    match e {
        InitError::Interface(e) => {
            let mut i = e.info();
            i.path.insert(0, "Interface");
            DutErr::Bus(i)
        }
        InitError::ResetPin(f) => DutErr::Bus(BusErr { path: vec!["ResetPin"], src: f.src, budget: f.budget }),
        InitError::InvalidConfiguration(ConfigurationError::InvalidDisplaySize) => DutErr::InvalidDisplaySize,
        InitError::InvalidConfiguration(ConfigurationError::InvalidDisplayOffset) => DutErr::InvalidDisplayOffset,
        InitError::InvalidConfiguration(ConfigurationError::UnsupportedInterface) => DutErr::UnsupportedInterface,
        InitError::InvalidConfiguration(_) => DutErr::OtherConfig,
    }
}

fn map_init_err_norst<E: ErrInfo>(e: InitError<E, core::convert::Infallible>) -> DutErr {
    match e {
        InitError::Interface(e) => {
            let mut i = e.info();
            i.path.insert(0, "Interface");
            DutErr::Bus(i)
        }
        InitError::ResetPin(_) => unreachable!(),
        InitError::InvalidConfiguration(ConfigurationError::InvalidDisplaySize) => DutErr::InvalidDisplaySize,
        InitError::InvalidConfiguration(ConfigurationError::InvalidDisplayOffset) => DutErr::InvalidDisplayOffset,
        InitError::InvalidConfiguration(ConfigurationError::UnsupportedInterface) => DutErr::UnsupportedInterface,
        InitError::InvalidConfiguration(_) => DutErr::OtherConfig,
    }
}

fn finish<DI, M>(di: DI, m: M, cfg: &Config, w: &W) -> Result<Box<dyn Dut + 'static>, DutErr>
where
    DI: Interface + 'static,
    DI::Error: ErrInfo,
    M: Model + 'static,
    M::ColorFormat: HColor + InterfacePixelFormat<DI::Word>,
{
    let mut clk = Clock { w: w.clone() };
    let r: Result<Box<dyn Dut>, DutErr> = guard(|| {
        if cfg.reset_pin {
            // the reset pin is attached before or after the other builder calls
            let b = if (cfg.w as usize + cfg.oy as usize + cfg.orient.index()) % 2 == 0 {
                opts(Builder::new(m, di), cfg).reset_pin(pin(w, Src::Rst))
            } else {
                opts(Builder::new(m, di).reset_pin(pin(w, Src::Rst)), cfg)
            };
            let d = b.init(&mut clk).map_err(map_init_err)?;
            Ok(Box::new(DutImpl { d, w: w.clone() }) as Box<dyn Dut>)
        } else {
            let b = opts(Builder::new(m, di), cfg);
            let d = b.init(&mut clk).map_err(map_init_err_norst)?;
            Ok(Box::new(DutImpl { d, w: w.clone() }) as Box<dyn Dut>)
        }
    });
    w.borrow_mut().flush();
    r
}

/// Leaked staging buffers would pile up over millions of cases; instead the buffer is owned by a
/// Box that lives as long as the Dut. `SpiInterface` borrows it for 'static through a raw
/// pointer; the box is dropped after the display (field order in `SpiHolder`).
struct SpiHolder {
    dut: Option<Box<dyn Dut>>,
    buf: *mut [u8],
}
impl Drop for SpiHolder {
    fn drop(&mut self) {
        self.dut = None;
        // SAFETY: the only borrower (the display inside `dut`) is gone
        unsafe { drop(Box::from_raw(self.buf)) };
    }
}
macro_rules! fwd {
    ($( fn $name:ident (&mut self $(, $a:ident : $t:ty)* ) -> $r:ty; )*) => {
        $( fn $name(&mut self $(, $a: $t)*) -> $r { self.dut.as_mut().unwrap().$name($($a),*) } )*
    };
}
impl Dut for SpiHolder {
    fn bits(&self) -> u32 {
        self.dut.as_ref().unwrap().bits()
    }
    fwd! {
        fn set_pixel(&mut self, x: u16, y: u16, c: u32) -> Res;
        fn set_pixels(&mut self, sx: u16, sy: u16, ex: u16, ey: u16, colours: &mut dyn Iterator<Item = u32>) -> Res;
        fn draw_iter(&mut self, px: &mut dyn Iterator<Item = (i32, i32, u32)>) -> Res;
        fn fill_contiguous(&mut self, rect: &Rect, colours: &mut dyn Iterator<Item = u32>) -> Res;
        fn fill_solid(&mut self, rect: &Rect, c: u32) -> Res;
        fn clear(&mut self, c: u32) -> Res;
        fn set_orientation(&mut self, o: Orient) -> Res;
        fn set_vertical_scroll_region(&mut self, top: u16, bottom: u16) -> Res;
        fn set_vertical_scroll_offset(&mut self, off: u16) -> Res;
        fn set_tearing_effect(&mut self, te: u8) -> Res;
        fn sleep(&mut self) -> Res;
        fn wake(&mut self) -> Res;
        fn draw_test_image(&mut self) -> Res;
    }
    fn orientation(&self) -> Orient {
        self.dut.as_ref().unwrap().orientation()
    }
    fn size(&self) -> (u32, u32) {
        self.dut.as_ref().unwrap().size()
    }
    fn bounding_box(&self) -> Rect {
        self.dut.as_ref().unwrap().bounding_box()
    }
    fn is_sleeping(&self) -> bool {
        self.dut.as_ref().unwrap().is_sleeping()
    }
    fn world(&self) -> W {
        self.dut.as_ref().unwrap().world()
    }
}

struct BuildU8<'a> {
    cfg: &'a Config,
    w: &'a W,
}

impl<'a> ModelVisitor for BuildU8<'a> {
    type Out = Result<Box<dyn Dut>, DutErr>;
    fn visit<M>(self, _id: ModelId, m: M) -> Self::Out
    where
        M: Model + 'static,
        M::ColorFormat: HColor + InterfacePixelFormat<u8>,
    {
        let (cfg, w) = (self.cfg, self.w);
        match cfg.transport {
            Transport::Rec8 => finish(RecIface::<u8, KP8>::new(w), m, cfg, w),
            Transport::Spi { buf } => {
                // poisoned staging buffer: stale content must never reach the bus
                // one spare byte in front: the buffer handed to the driver starts at an odd or an even
                // address (users slice static arrays at arbitrary offsets)
                let b: Box<[u8]> = vec![0xA5u8; buf as usize + 1].into_boxed_slice();
                let raw: *mut [u8] = Box::into_raw(b);
                let skip = if (buf as usize + cfg.w as usize) % 2 == 0 { 0 } else { 1 };
                // SAFETY: see SpiHolder
                let whole: &'static mut [u8] = unsafe { &mut *raw };
                let slice: &'static mut [u8] = &mut whole[skip..skip + buf as usize];
                let di = SpiInterface::new(SpiDev { w: w.clone() }, pin(w, Src::Dc), slice);
                match finish(di, m, cfg, w) {
                    Ok(d) => Ok(Box::new(SpiHolder { dut: Some(d), buf: raw }) as Box<dyn Dut>),
                    Err(e) => {
                        unsafe { drop(Box::from_raw(raw)) };
                        Err(e)
                    }
                }
            }
            Transport::Par8 => {
                let bus = Generic8BitBus::new(pins8(w));
                let di = ParallelInterface::new(bus, pin(w, Src::Dc), pin(w, Src::Wr));
                finish(di, m, cfg, w)
            }
            _ => unreachable!(),
        }
    }
}

struct BuildU16<'a> {
    cfg: &'a Config,
    w: &'a W,
}

impl<'a> Model565Visitor for BuildU16<'a> {
    type Out = Result<Box<dyn Dut>, DutErr>;
    fn visit<M>(self, _id: ModelId, m: M) -> Self::Out
    where
        M: Model<ColorFormat = Rgb565> + 'static,
    {
        let (cfg, w) = (self.cfg, self.w);
        match cfg.transport {
            Transport::Rec16 => finish(RecIface::<u16, KP16>::new(w), m, cfg, w),
            Transport::Par16 => {
                let bus = Generic16BitBus::new(pins16(w));
                let di = ParallelInterface::new(bus, pin(w, Src::Dc), pin(w, Src::Wr));
                finish(di, m, cfg, w)
            }
            _ => unreachable!(),
        }
    }
}

/// Can this model be combined with this transport at the type level (Builder's trait bound)?
pub fn type_compatible(model: ModelId, t: Transport) -> bool {
    t.bus_bits() == 8 || model.bits() == 16
}

pub fn new_world(cfg: &Config) -> W {
    let (fw, fh) = cfg.model.fb();
    World::new(fw as u32, fh as u32, cfg.transport.bus_bits())
}

/// Build and initialise a display. The world is created by the caller so that it can be
/// inspected even when init fails.
pub fn build(cfg: &Config, w: &W) -> Result<Box<dyn Dut>, DutErr> {
    install_panic_hook();
    assert!(type_compatible(cfg.model, cfg.transport), "harness: incompatible model/transport");
    if cfg.transport.bus_bits() == 16 {
        dispatch_model565(cfg.model, BuildU16 { cfg, w }).expect("565 model")
    } else {
        dispatch_model(cfg.model, BuildU8 { cfg, w })
    }
}

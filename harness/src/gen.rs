//! Generators (proptest strategies). Construction, not rejection: every generated value is
//! inside the domain the property quantifies over.

use crate::dut::type_compatible;
use crate::models::{ModelId, ALL_MODELS};
use crate::types::*;
use proptest::collection::vec;
use proptest::prelude::*;

pub fn orient() -> impl Strategy<Value = Orient> {
    (0u8..4, any::<bool>()).prop_map(|(rot, mirrored)| Orient { rot, mirrored })
}

/// value in 0..=max, biased towards the ends
pub fn edge_u32(max: u32) -> BoxedStrategy<u32> {
    if max == 0 {
        return Just(0u32).boxed();
    }
    prop_oneof![
        2 => Just(0u32),
        2 => Just(max),
        1 => Just(max.saturating_sub(1)),
        1 => Just(1u32.min(max)),
        6 => 0..=max,
    ]
    .boxed()
}

#[derive(Clone, Copy, Debug, PartialEq, Eq)]
pub enum WindowSize {
    /// windows up to 24x24 (cheap; the bulk of the cases)
    Small,
    /// Small mostly, sometimes up to 80x80, sometimes the full framebuffer
    Mixed,
    /// both edges mostly 52..=170 (rows longer than the batching capacities fit)
    Wide,
}

/// (w, h, ox, oy) accepted by init for a framebuffer (fw, fh); asymmetric margins favoured
pub fn window(fw: u16, fh: u16, ws: WindowSize, cap: u16) -> BoxedStrategy<(u16, u16, u16, u16)> {
    let dim = move |f: u16| -> BoxedStrategy<u16> {
        let f32 = f as u32;
        let small = 24u32.min(f32).min(cap as u32).max(1);
        let med = 80u32.min(f32).min(cap as u32).max(1);
        let full = f32.min(cap as u32).max(1);
        match ws {
            WindowSize::Small => prop_oneof![
                8 => 1..=small,
                1 => Just(1u32),
                1 => Just(small),
            ]
            .prop_map(|v| v as u16)
            .boxed(),
            WindowSize::Wide => {
                let lo = 52u32.min(full);
                let hi = 170u32.min(full).max(lo);
                prop_oneof![
                    8 => lo..=hi,
                    1 => 1..=small,
                    1 => Just(full),
                ]
                .prop_map(|v| v as u16)
                .boxed()
            }
            WindowSize::Mixed => prop_oneof![
                10 => 1..=small,
                1 => Just(1u32),
                2 => 1..=med,
                1 => Just(full),
                1 => Just(full.saturating_sub(1).max(1)),
            ]
            .prop_map(|v| v as u16)
            .boxed(),
        }
    };
    (dim(fw), dim(fh))
        .prop_flat_map(move |(w, h)| {
            let mx = (fw - w) as u32;
            let my = (fh - h) as u32;
            (Just(w), Just(h), edge_u32(mx), edge_u32(my), 0u8..8)
        })
        .prop_map(move |(w, h, ox, oy, centre)| {
            // one window in eight is centred on both axes (equal margins left/right and top/bottom)
            if centre == 0 {
                (w, h, (fw - w) / 2, (fh - h) / 2)
            } else {
                (w, h, ox as u16, oy as u16)
            }
        })
        .boxed()
}

#[derive(Clone, Debug)]
pub struct ConfigMenu {
    pub models: Vec<ModelId>,
    pub transports: Vec<Transport>,
    pub window: WindowSize,
    /// cap on window edge for pin-level transports (cost control)
    pub pin_cap: u16,
}

impl ConfigMenu {
    pub fn all_rec() -> ConfigMenu {
        ConfigMenu {
            models: ALL_MODELS.to_vec(),
            transports: vec![Transport::Rec8, Transport::Rec8, Transport::Rec16],
            window: WindowSize::Mixed,
            pin_cap: 16,
        }
    }
    pub fn all_transports() -> ConfigMenu {
        ConfigMenu {
            models: ALL_MODELS.to_vec(),
            transports: vec![
                Transport::Rec8,
                Transport::Rec8,
                Transport::Rec8,
                Transport::Rec16,
                Transport::Spi { buf: 0 },
                Transport::Par8,
                Transport::Par16,
            ],
            window: WindowSize::Mixed,
            pin_cap: 16,
        }
    }
    pub fn pin_level() -> ConfigMenu {
        ConfigMenu {
            models: ALL_MODELS.to_vec(),
            transports: vec![Transport::Spi { buf: 0 }, Transport::Par8, Transport::Par16],
            window: WindowSize::Small,
            pin_cap: 16,
        }
    }
}

/// SPI staging buffer length: at least one pixel (n bytes), multiples of n or not
pub fn spi_buf(n: u16) -> BoxedStrategy<u16> {
    prop_oneof![
        2 => Just(n),
        1 => Just(n + 1),
        1 => Just(2 * n - 1),
        1 => Just(2 * n),
        1 => Just(2 * n + 1),
        3 => n..=64u16,
        1 => Just(64u16),
        1 => 65u16..=600,
    ]
    .boxed()
}

/// does the model's init accept this transport's interface kind today (frozen table, DESIGN 7.1)
pub fn supported(model: ModelId, kind: Kind) -> bool {
    match (model, kind) {
        (ModelId::ILI9486Rgb565, Kind::Serial) => false,
        (ModelId::GC9107, Kind::P16) => false,
        (ModelId::RM67162, Kind::P16) => false,
        _ => true,
    }
}

/// (width, height, offset x, offset y) of common panel modules built around the controller, plus the
/// generic ones every controller is used with (full framebuffer, a square at either end); only those
/// that fit the model's framebuffer
pub fn known_geometries(model: ModelId) -> Vec<(u16, u16, u16, u16)> {
    let (fw, fh) = model.fb();
    let name = model.name();
    let mut v: Vec<(u16, u16, u16, u16)> = vec![(fw, fh, 0, 0)];
    if fw < fh {
        v.push((fw, fw, 0, 0));
        v.push((fw, fw, 0, fh - fw));
    }
    if name.contains("ST7735") {
        v.extend([(80, 160, 26, 1), (80, 160, 24, 0), (128, 160, 0, 0), (128, 160, 2, 1), (128, 128, 2, 1), (128, 128, 2, 3), (128, 128, 0, 32)]);
    }
    if name.contains("ST7789") {
        v.extend([(240, 240, 0, 0), (240, 240, 0, 80), (135, 240, 52, 40), (135, 240, 53, 40), (170, 320, 35, 0), (172, 320, 34, 0), (240, 280, 0, 20)]);
    }
    if name.contains("GC9107") {
        v.extend([(128, 128, 0, 0), (128, 128, 2, 1), (128, 128, 0, 32)]);
    }
    if name.contains("ILI9341") || name.contains("ILI9342") {
        v.extend([(240, 240, 0, 0), (240, 240, 0, 80), (320, 240, 0, 0), (240, 320, 0, 0)]);
    }
    v.retain(|&(w, h, ox, oy)| w > 0 && h > 0 && w as u32 + ox as u32 <= fw as u32 && h as u32 + oy as u32 <= fh as u32);
    v.sort();
    v.dedup();
    v
}

pub fn config(menu: ConfigMenu) -> BoxedStrategy<Config> {
    let models = menu.models.clone();
    let transports = menu.transports.clone();
    let ws = menu.window;
    let pin_cap = menu.pin_cap;
    (proptest::sample::select(models), proptest::sample::select(transports))
        .prop_flat_map(move |(model, t0)| {
            // fall back to a compatible transport of the same level
            let mut t = t0;
            if !type_compatible(model, t) {
                t = match t {
                    Transport::Rec16 => Transport::Rec8,
                    Transport::Par16 => Transport::Par8,
                    x => x,
                };
            }
            if !supported(model, t.kind()) {
                t = match t {
                    Transport::Spi { .. } => Transport::Par8,
                    Transport::Rec16 => Transport::Rec8,
                    Transport::Par16 => Transport::Par8,
                    x => x,
                };
            }
            let (fw, fh) = model.fb();
            let huge = fw as u32 * fh as u32 > (1 << 22);
            let cap: u16 = if t.pin_level() {
                pin_cap
            } else if huge {
                64
            } else {
                u16::MAX
            };
            let n = (model.bits() as u16 + 7) / 8;
            let tstrat: BoxedStrategy<Transport> = match t {
                Transport::Spi { .. } => spi_buf(n).prop_map(|buf| Transport::Spi { buf: buf as u32 }).boxed(),
                x => Just(x).boxed(),
            };
            let generated = window(fw, fh, if t.pin_level() && ws != WindowSize::Wide { WindowSize::Small } else { ws }, cap);
            // one window in eight (on the transports where size does not matter for the cost) is the
            // geometry of a panel module people actually buy
            let known = known_geometries(model);
            let win: BoxedStrategy<(u16, u16, u16, u16)> = if !t.pin_level() && !huge && !known.is_empty() {
                prop_oneof![7 => generated, 1 => proptest::sample::select(known)].boxed()
            } else {
                generated
            };
            (Just(model), tstrat, win, orient(), any::<[bool; 4]>())
        })
        .prop_map(|(model, transport, (w, h, ox, oy), orient, b)| Config {
            model,
            transport,
            w,
            h,
            ox,
            oy,
            orient,
            bgr: b[0],
            invert: b[1],
            refresh_v: b[2],
            refresh_h: b[3],
            reset_pin: false,
        })
        .boxed()
}

// ------------------------------------------------------------------------------------------
// in-bounds drawing programs

/// an in-bounds sub-rectangle of (lw, lh) with area <= cap
pub fn inner_rect(lw: u32, lh: u32, cap: u32) -> BoxedStrategy<Rect> {
    (edge_u32(lw - 1), edge_u32(lh - 1), edge_u32(lw - 1), edge_u32(lh - 1))
        .prop_map(move |(a, b, c, d)| {
            let (x0, x1) = (a.min(c), a.max(c));
            let (y0, y1) = (b.min(d), b.max(d));
            let mut w = x1 - x0 + 1;
            let mut h = y1 - y0 + 1;
            // shrink towards the cap, keeping the corner
            if (w as u64) * (h as u64) > cap as u64 {
                let side = (cap as f64).sqrt() as u32;
                w = w.min(side.max(1));
                h = h.min((cap / w).max(1));
            }
            Rect { x: x0 as i32, y: y0 as i32, w, h }
        })
        .boxed()
}

/// Segments a pixel stream is assembled from (all expressed in i32 so that out-of-bounds
/// variants can reuse them).
#[derive(Clone, Debug)]
pub enum Seg {
    /// `n` pixels left to right from (x, y)
    Run { x: i32, y: i32, n: u32 },
    /// `rows` stacked runs of equal shape
    Block { x: i32, y: i32, n: u32, rows: u32 },
    /// right to left
    RunRev { x: i32, y: i32, n: u32 },
    /// top to bottom
    Col { x: i32, y: i32, n: u32 },
    Scatter(Vec<(i32, i32)>),
    /// the same position again and again
    Repeat { x: i32, y: i32, n: u32 },
    /// rows whose start column / length drift
    Ragged { x: i32, y: i32, lens: Vec<(i8, u8)> },
    /// right-to-left run of `n` from (x, y), then `m` pixels left to right starting at x + 1
    RevThenRight { x: i32, y: i32, n: u32, m: u32 },
    /// left-aligned rows below each other with the given lengths (around the capacities)
    Stair { x: i32, y: i32, lens: Vec<u32> },
    /// points inside a small neighbourhood, with repeats, in arbitrary order
    Cluster { x: i32, y: i32, d: Vec<(u8, u8)> },
}

impl Seg {
    pub fn emit(&self, out: &mut Vec<(i32, i32)>) {
        match self {
            Seg::Run { x, y, n } => {
                for i in 0..*n {
                    out.push((x.wrapping_add(i as i32), *y));
                }
            }
            Seg::Block { x, y, n, rows } => {
                for r in 0..*rows {
                    for i in 0..*n {
                        out.push((x.wrapping_add(i as i32), y.wrapping_add(r as i32)));
                    }
                }
            }
            Seg::RunRev { x, y, n } => {
                for i in 0..*n {
                    out.push((x.wrapping_sub(i as i32), *y));
                }
            }
            Seg::Col { x, y, n } => {
                for i in 0..*n {
                    out.push((*x, y.wrapping_add(i as i32)));
                }
            }
            Seg::Scatter(v) => out.extend_from_slice(v),
            Seg::Repeat { x, y, n } => {
                for _ in 0..*n {
                    out.push((*x, *y));
                }
            }
            Seg::RevThenRight { x, y, n, m } => {
                for i in 0..*n {
                    out.push((x.wrapping_sub(i as i32), *y));
                }
                for i in 0..*m {
                    out.push((x.wrapping_add(1 + i as i32), *y));
                }
            }
            Seg::Stair { x, y, lens } => {
                for (r, l) in lens.iter().enumerate() {
                    for i in 0..*l {
                        out.push((x.wrapping_add(i as i32), y.wrapping_add(r as i32)));
                    }
                }
            }
            Seg::Cluster { x, y, d } => {
                for (dx, dy) in d {
                    out.push((x.wrapping_add(*dx as i32), y.wrapping_add(*dy as i32)));
                }
            }
            Seg::Ragged { x, y, lens } => {
                let mut sx = *x;
                for (r, (dx, l)) in lens.iter().enumerate() {
                    sx = sx.wrapping_add(*dx as i32);
                    for i in 0..*l as i32 {
                        out.push((sx.wrapping_add(i), y.wrapping_add(r as i32)));
                    }
                }
            }
        }
    }
}

/// run lengths around the batching capacities
pub fn run_len(max: u32) -> BoxedStrategy<u32> {
    let m = max.max(1);
    let pick = |v: u32| Just(v.min(m).max(1));
    prop_oneof![
        3 => 1..=m.min(8),
        2 => 1..=m,
        1 => pick(2),
        1 => pick(49),
        2 => pick(50),
        2 => pick(51),
        1 => pick(99),
        2 => pick(100),
        2 => pick(101),
        1 => pick(149),
        1 => pick(150),
        1 => pick(151),
        1 => pick(200),
        1 => pick(201),
        1 => pick(m),
    ]
    .boxed()
}

/// in-bounds segments for a logical area (lw, lh); each at most `cap` pixels
pub fn seg_in(lw: u32, lh: u32, cap: u32) -> BoxedStrategy<Seg> {
    let run = (edge_u32(lw - 1), edge_u32(lh - 1))
        .prop_flat_map(move |(x, y)| (Just(x), Just(y), run_len((lw - x).min(cap))))
        .prop_map(|(x, y, n)| Seg::Run { x: x as i32, y: y as i32, n });
    let block = (edge_u32(lw - 1), edge_u32(lh - 1))
        .prop_flat_map(move |(x, y)| {
            let maxn = (lw - x).min(cap);
            (Just(x), Just(y), run_len(maxn.min(120)), 1..=(lh - y).min(12))
        })
        .prop_map(move |(x, y, n, rows)| {
            let rows = rows.min((cap / n.max(1)).max(1));
            Seg::Block { x: x as i32, y: y as i32, n, rows }
        });
    let rev = (edge_u32(lw - 1), edge_u32(lh - 1))
        .prop_flat_map(move |(x, y)| (Just(x), Just(y), 1..=(x + 1).min(cap).min(60)))
        .prop_map(|(x, y, n)| Seg::RunRev { x: x as i32, y: y as i32, n });
    let col = (edge_u32(lw - 1), edge_u32(lh - 1))
        .prop_flat_map(move |(x, y)| (Just(x), Just(y), 1..=(lh - y).min(cap).min(60)))
        .prop_map(|(x, y, n)| Seg::Col { x: x as i32, y: y as i32, n });
    let scatter = vec((edge_u32(lw - 1), edge_u32(lh - 1)), 1..12)
        .prop_map(|v| Seg::Scatter(v.into_iter().map(|(x, y)| (x as i32, y as i32)).collect()));
    let rep = (edge_u32(lw - 1), edge_u32(lh - 1), 2u32..5).prop_map(|(x, y, n)| Seg::Repeat {
        x: x as i32,
        y: y as i32,
        n,
    });
    let rev_right = (edge_u32(lw - 1), edge_u32(lh - 1), 1u32..6, 1u32..4).prop_map(|(x, y, n, m)| Seg::RevThenRight { x: x as i32, y: y as i32, n, m });
    let stair_len = prop_oneof![Just(49u32), Just(50u32), Just(51u32), Just(60u32), Just(78u32), Just(99u32), Just(100u32), Just(101u32), 1u32..8, 40u32..110];
    let stair = (edge_u32(lw - 1), edge_u32(lh - 1), vec(stair_len, 2..5)).prop_map(|(x, y, lens)| Seg::Stair { x: (x / 4) as i32, y: y as i32, lens });
    let cluster = (edge_u32(lw - 1), edge_u32(lh - 1), vec((0u8..3, 0u8..3), 3..9)).prop_map(|(x, y, d)| Seg::Cluster { x: x as i32, y: y as i32, d });
    prop_oneof![
        5 => run,
        4 => block,
        1 => rev,
        1 => col,
        2 => scatter,
        1 => rep,
        1 => rev_right,
        2 => stair,
        2 => cluster,
    ]
    .boxed()
}

/// an in-bounds pixel stream
pub fn pts_in(lw: u32, lh: u32, max_segs: usize, cap: u32) -> BoxedStrategy<Vec<(i32, i32)>> {
    vec(seg_in(lw, lh, cap), 0..=max_segs)
        .prop_map(move |segs| {
            let mut out = Vec::new();
            for s in &segs {
                s.emit(&mut out);
            }
            out.retain(|(x, y)| *x >= 0 && *y >= 0 && (*x as u32) < lw && (*y as u32) < lh);
            out
        })
        .boxed()
}

pub fn stream_len(area: u64) -> BoxedStrategy<StreamLen> {
    let a = area;
    prop_oneof![
        4 => Just(StreamLen::Finite(a)),
        2 => Just(StreamLen::Infinite),
        1 => Just(StreamLen::Finite(0)),
        1 => Just(StreamLen::Finite(1)),
        1 => Just(StreamLen::Finite(a.saturating_sub(1))),
        1 => Just(StreamLen::Finite(a.saturating_add(1))),
        1 => Just(StreamLen::Finite(a.saturating_add(1000))),
        3 => (0..=a.min(1 << 20)).prop_map(StreamLen::Finite),
    ]
    .boxed()
}

/// colour seeds: mostly arbitrary, sometimes from a tiny palette so that calls of one program
/// repeat a colour (state carried from one call to the next, e.g. a staged fill pattern, shows up)
pub fn seed() -> BoxedStrategy<u32> {
    prop_oneof![
        6 => any::<u32>(),
        4 => proptest::sample::select(vec![1u32, 2, 3]),
        // black, white and uniform-byte colours
        2 => (0u32..6).prop_map(|i| crate::types::UNIFORM_SEED_BASE + i),
    ]
    .boxed()
}

/// one in-bounds drawing call for logical size (lw, lh)
pub fn op_in(lw: u32, lh: u32, big: bool) -> BoxedStrategy<DrawOp> {
    let cap = if big { 1 << 14 } else { 1 << 10 };
    let sp = (edge_u32(lw - 1), edge_u32(lh - 1), seed())
        .prop_map(|(x, y, seed)| DrawOp::SetPixel { x: x as u16, y: y as u16, seed });
    let sps = (inner_rect(lw, lh, cap), seed(), 0u32..=100)
        .prop_map(|(r, seed, pct)| {
            let area = r.area() as u32;
            // mostly exactly the window, sometimes fewer colours, sometimes surplus colours
            // (documented: "drawing will wrap around" inside the window)
            let n = if pct >= 94 {
                area + 1 + (seed % area.max(1))
            } else if pct >= 55 {
                area
            } else {
                (area as u64 * pct as u64 / 55) as u32
            };
            DrawOp::SetPixels {
                sx: r.x as u16,
                sy: r.y as u16,
                ex: (r.x as u32 + r.w - 1) as u16,
                ey: (r.y as u32 + r.h - 1) as u16,
                n,
                seed,
            }
        });
    let di = (pts_in(lw, lh, 5, 260), seed()).prop_map(|(pts, seed)| DrawOp::DrawIter { pts, seed });
    let fc = (inner_rect(lw, lh, cap), seed())
        .prop_flat_map(|(r, seed)| (Just(r), Just(seed), stream_len(r.area())))
        .prop_map(|(rect, seed, len)| DrawOp::FillContiguous { rect, len, seed });
    let fs = (inner_rect(lw, lh, u32::MAX), seed()).prop_map(|(rect, seed)| DrawOp::FillSolid { rect, seed });
    let cl = seed().prop_map(|seed| DrawOp::Clear { seed });
    prop_oneof![
        3 => sp,
        2 => sps,
        4 => di,
        3 => fc,
        2 => fs,
        1 => cl,
    ]
    .boxed()
}

pub fn program_in(lw: u32, lh: u32, max_ops: usize) -> BoxedStrategy<Vec<DrawOp>> {
    vec(op_in(lw, lh, false), 1..=max_ops).boxed()
}

// ------------------------------------------------------------------------------------------
// arbitrary-coordinate drawing (C02 and friends)

/// a coordinate anywhere in i32, biased to the places where things go wrong
pub fn wild_coord(l: u32) -> BoxedStrategy<i32> {
    let l = l as i32;
    prop_oneof![
        6 => 0..l,
        2 => Just(-1),
        2 => Just(l),
        1 => Just(l + 1),
        1 => Just(65535),
        1 => Just(65536),
        2 => (0..l).prop_map(|k| 65536 + k),
        1 => (0..l).prop_map(|k| -65536 + k),
        1 => (0..l).prop_map(|k| k.wrapping_add(i32::MIN)), // low 16 bits alias in-bounds values
        1 => Just(i32::MIN),
        1 => Just(i32::MAX),
        1 => Just(i32::MAX - 1),
        1 => -300..700i32,
        1 => any::<i32>(),
    ]
    .boxed()
}

/// a pixel stream mixing in-bounds and out-of-bounds points
pub fn pts_wild(lw: u32, lh: u32, max_segs: usize, cap: u32) -> BoxedStrategy<Vec<(i32, i32)>> {
    let lwi = lw as i32;
    let wild_pts = vec((wild_coord(lw), wild_coord(lh)), 1..10).prop_map(Seg::Scatter);
    // runs that leave the display on the right / enter from the left / sit on row -1 or row lh
    let crossing = (-20i32..lwi + 4, wild_coord(lh), 1u32..=cap.min(130))
        .prop_map(|(x, y, n)| Seg::Run { x, y, n });
    let crossing_block = (-6i32..lwi + 2, -3i32..lh as i32 + 1, 1u32..=cap.min(60), 1u32..6).prop_map(
        |(x, y, n, rows)| Seg::Block { x, y, n, rows },
    );
    let edge_run = (wild_coord(lw), wild_coord(lh), 1u32..8).prop_map(|(x, y, n)| Seg::Run { x, y, n });
    let seg = prop_oneof![
        4 => seg_in(lw, lh, cap),
        3 => wild_pts,
        2 => crossing,
        1 => crossing_block,
        2 => edge_run,
    ];
    vec(seg, 0..=max_segs)
        .prop_map(|segs| {
            let mut out = Vec::new();
            for s in &segs {
                s.emit(&mut out);
            }
            out
        })
        .boxed()
}

/// interval (start, len) in relation to [0, l): every position class
pub fn wild_interval(l: u32) -> BoxedStrategy<(i32, u32)> {
    let li = l as i64;
    let inside = (0..l, 0..l).prop_map(|(a, b)| (a.min(b) as i32, a.max(b) - a.min(b) + 1));
    let left = (1i64..=40, 0..l).prop_map(|(k, e)| ((-k) as i32, (e as i64 + k + 1) as u32));
    let right = (0..l, 1i64..=40).prop_map(move |(s, k)| (s as i32, (li - s as i64 + k) as u32));
    let enclosing = (1i64..=40, 1i64..=40).prop_map(move |(a, b)| ((-a) as i32, (li + a + b) as u32));
    let dis_left = (1i64..=50, 1u32..=30).prop_map(|(gap, len)| ((-(gap + len as i64)) as i32, len));
    let dis_right = (0i64..=50, 1u32..=30).prop_map(move |(gap, len)| ((li + gap) as i32, len));
    let zero = wild_coord(l).prop_map(|s| (s, 0u32));
    let exact = Just((0i32, l));
    // extremes: start near i32::MIN reaching into the display is impossible with < 2^32 points
    // in most cases, so extremes are mostly disjoint; far-right starts with short lengths
    let far = prop_oneof![
        (1u32..=100).prop_map(|len| (i32::MIN, len)),
        (1u32..=100).prop_map(|len| (i32::MAX - len as i32, len)),
        (1u32..=100).prop_map(|len| (65536, len)),
        (0..l).prop_map(|k| (65536 + k as i32, 3)),
        // huge width starting left of the display, covering it completely
        (1i64..=1000).prop_map(move |a| ((-a) as i32, (li + a + 100_000) as u32)),
        // more than 65536 clipped points per row on the left / on both sides
        (65_530i64..=200_000).prop_map(move |a| ((-a) as i32, (li + a) as u32)),
        (65_530i64..=70_000, 0i64..=70_000).prop_map(move |(a, b)| ((-a) as i32, (li + a + b) as u32)),
        Just((i32::MIN, i32::MAX as u32)),
        Just((-1, i32::MAX as u32)),
        Just((0, i32::MAX as u32)),
    ];
    prop_oneof![
        4 => inside,
        3 => left,
        3 => right,
        2 => enclosing,
        1 => dis_left,
        1 => dis_right,
        1 => zero,
        1 => exact,
        2 => far,
    ]
    .boxed()
}

/// any valid embedded-graphics rectangle (< 2^32 points, corners inside i32)
pub fn wild_rect(lw: u32, lh: u32) -> BoxedStrategy<Rect> {
    (wild_interval(lw), wild_interval(lh))
        .prop_map(|((x, w), (y, h))| {
            let mut r = Rect { x, y, w, h };
            // construction instead of rejection: cut the height until the area fits
            if r.w > 0 && r.area() >= (1u64 << 32) {
                r.h = (((1u64 << 32) - 1) / r.w as u64) as u32;
            }
            debug_assert!(r.valid());
            r
        })
        .boxed()
}

pub fn op_wild(lw: u32, lh: u32) -> BoxedStrategy<DrawOp> {
    let di = (pts_wild(lw, lh, 5, 200), seed()).prop_map(|(pts, seed)| DrawOp::DrawIter { pts, seed });
    let fc = (wild_rect(lw, lh), seed())
        .prop_flat_map(|(r, seed)| (Just(r), Just(seed), stream_len(r.area())))
        .prop_map(|(rect, seed, len)| DrawOp::FillContiguous { rect, len, seed });
    let fs = (wild_rect(lw, lh), seed()).prop_map(|(rect, seed)| DrawOp::FillSolid { rect, seed });
    let cl = seed().prop_map(|seed| DrawOp::Clear { seed });
    prop_oneof![
        5 => di,
        4 => fc,
        3 => fs,
        1 => cl,
    ]
    .boxed()
}

pub fn sample_index(len: usize, raw: u16) -> usize {
    // monotone mapping (shrinks well)
    ((raw as usize) * len) >> 16
}

// ------------------------------------------------------------------------------------------
// histories before the judged calls (built with another orientation, drew, was re-oriented)

fn op_fits(op: &DrawOp, lw: u32, lh: u32) -> bool {
    let inside = |x: i64, y: i64| x >= 0 && y >= 0 && x < lw as i64 && y < lh as i64;
    match op {
        DrawOp::SetPixel { x, y, .. } => inside(*x as i64, *y as i64),
        DrawOp::SetPixels { sx, sy, ex, ey, n, .. } => {
            inside(*sx as i64, *sy as i64) && inside(*ex as i64, *ey as i64) && (*n as u64) <= (*ex as u64 - *sx as u64 + 1) * (*ey as u64 - *sy as u64 + 1)
        }
        DrawOp::DrawIter { pts, .. } => pts.iter().all(|(x, y)| inside(*x as i64, *y as i64)),
        DrawOp::FillContiguous { rect, .. } | DrawOp::FillSolid { rect, .. } => {
            rect.w > 0 && rect.h > 0 && inside(rect.x as i64, rect.y as i64) && inside(rect.x as i64 + rect.w as i64 - 1, rect.y as i64 + rect.h as i64 - 1)
        }
        DrawOp::Clear { .. } => true,
    }
}

/// wrap generated programs into a history: another initial orientation, 0..2 drawing calls under it
/// (one third of the time including a copy of the first judged call, so that the last window
/// programmed before the re-orientation is the first one wanted after it), 0..2 intermediate
/// orientations, a drawing call after some of the orientation changes
pub fn history(prog: BoxedStrategy<crate::exec::ProgCase>) -> BoxedStrategy<crate::exec::HistCase> {
    use crate::exec::{Hist, HistCase};
    (prog, orient(), vec(orient(), 0..3), 0u8..3)
        .prop_flat_map(|(p, first, via, echo)| {
            let (lw0, lh0) = p.cfg.logical_size(first);
            let m = p.cfg.w.min(p.cfg.h) as u32;
            let n_mid = via.len() + 1;
            (Just(p), Just(first), Just(via), Just(echo), vec(op_in(lw0, lh0, false), 0..3), vec(op_in(m, m, false), 0..=n_mid))
        })
        .prop_map(|(p, first, via, echo, mut pre, mid)| {
            let (lw0, lh0) = p.cfg.logical_size(first);
            if echo == 0 {
                if let Some(op) = p.ops.first() {
                    if op_fits(op, lw0, lh0) {
                        pre.push(op.clone());
                    }
                }
            }
            HistCase { hist: Hist { first, pre, via, mid, failed: None }, prog: p }
        })
        .boxed()
}

//! Driving generated cases: proptest runners sharded over worker threads, statistics,
//! shrinking to a minimal case, evidence parts.

use proptest::strategy::Strategy;
use proptest::test_runner::{Config as PtConfig, RngSeed, TestCaseError, TestError, TestRunner};
use serde::Serialize;
use serde_json::{json, Value};
use std::collections::{BTreeMap, HashSet};
use std::hash::{Hash, Hasher};
use std::sync::Mutex;

/// Filled in by a check for the case it has just run
#[derive(Default)]
pub struct CaseInfo {
    pub nontrivial: bool,
    pub labels: Vec<&'static str>,
}

impl CaseInfo {
    pub fn label(&mut self, l: &'static str) {
        self.labels.push(l);
    }
}

#[derive(Default)]
pub struct Stats {
    pub evaluations: u64,
    pub nontrivial: HashSet<u64>,
    pub labels: BTreeMap<String, u64>,
    pub samples: Vec<Value>,
    pub nontrivial_samples: Vec<Value>,
}

impl Stats {
    pub fn merge(&mut self, o: Stats) {
        self.evaluations += o.evaluations;
        self.nontrivial.extend(o.nontrivial);
        for (k, v) in o.labels {
            *self.labels.entry(k).or_insert(0) += v;
        }
        for s in o.samples {
            if self.samples.len() < 3 {
                self.samples.push(s);
            }
        }
        for s in o.nontrivial_samples {
            if self.nontrivial_samples.len() < 4 {
                self.nontrivial_samples.push(s);
            }
        }
    }
    pub fn record<T: Serialize + Hash>(&mut self, case: &T, info: &CaseInfo) {
        self.evaluations += 1;
        for l in &info.labels {
            *self.labels.entry((*l).to_string()).or_insert(0) += 1;
        }
        if info.nontrivial {
            let mut h = std::collections::hash_map::DefaultHasher::new();
            case.hash(&mut h);
            let fresh = self.nontrivial.insert(h.finish());
            if fresh && self.nontrivial_samples.len() < 4 {
                self.nontrivial_samples.push(truncate_json(serde_json::to_value(case).unwrap_or(Value::Null)));
            }
        } else if self.samples.len() < 2 {
            self.samples.push(truncate_json(serde_json::to_value(case).unwrap_or(Value::Null)));
        }
    }
}

/// keep samples readable: long arrays are cut
pub fn truncate_json(v: Value) -> Value {
    match v {
        Value::Array(a) => {
            let n = a.len();
            let mut out: Vec<Value> = a.into_iter().take(24).map(truncate_json).collect();
            if n > 24 {
                out.push(json!(format!("... {} more", n - 24)));
            }
            Value::Array(out)
        }
        Value::Object(m) => Value::Object(m.into_iter().map(|(k, v)| (k, truncate_json(v))).collect()),
        x => x,
    }
}

#[derive(Clone, Debug)]
pub struct Violation {
    pub reason: String,
    /// the (shrunk) failing case; written to the replay file
    pub case: Value,
    /// stable class of the failure, for the known-findings file
    pub signature: String,
}

/// One sub-result of a check (a check may combine an enumeration and generated runs)
pub struct Section {
    pub name: String,
    pub stats: Stats,
    pub exhaustive: bool,
    pub rule: String,
    pub violations: Vec<Violation>,
    pub extra: BTreeMap<String, Value>,
}

impl Section {
    pub fn new(name: &str, rule: &str) -> Section {
        Section {
            name: name.to_string(),
            stats: Stats::default(),
            exhaustive: false,
            rule: rule.to_string(),
            violations: Vec::new(),
            extra: BTreeMap::new(),
        }
    }
    pub fn to_json(&self) -> Value {
        let mut samples = self.stats.nontrivial_samples.clone();
        samples.extend(self.stats.samples.iter().cloned());
        json!({
            "name": self.name,
            "evaluations": self.stats.evaluations,
            "distinct_nontrivial": self.stats.nontrivial.len(),
            "rule": self.rule,
            "labels": self.stats.labels,
            "samples": samples,
            "exhaustive": self.exhaustive,
            "violations": self.violations.len(),
            "extra": self.extra,
        })
    }
}

pub fn default_workers() -> usize {
    std::env::var("VERIF_WORKERS")
        .ok()
        .and_then(|s| s.parse().ok())
        .unwrap_or_else(|| std::thread::available_parallelism().map(|n| n.get()).unwrap_or(4))
        .max(1)
}

pub fn splitmix(mut x: u64) -> u64 {
    x = x.wrapping_add(0x9E3779B97F4A7C15);
    let mut z = x;
    z = (z ^ (z >> 30)).wrapping_mul(0xBF58476D1CE4E5B9);
    z = (z ^ (z >> 27)).wrapping_mul(0x94D049BB133111EB);
    z ^ (z >> 31)
}

/// Run `cases` generated cases of `strategy` through `check`, sharded over worker threads.
/// The run is a pure function of (code, seed, cases, workers).
pub fn run_generated<S, F, G>(
    section: &mut Section,
    seed: u64,
    cases: u64,
    workers: usize,
    make_strategy: G,
    check: F,
    signature: impl Fn(&S::Value, &str) -> String + Sync,
) where
    S: Strategy,
    S::Value: Serialize + Hash + Clone + std::fmt::Debug,
    G: Fn() -> S + Sync,
    F: Fn(&S::Value, &mut CaseInfo) -> Result<(), String> + Sync,
{
    let workers = workers.max(1).min(cases.max(1) as usize);
    let per = cases / workers as u64;
    let rem = cases % workers as u64;
    let merged: Mutex<Stats> = Mutex::new(Stats::default());
    // Pass 1 (detection, no shrinking): every worker runs its share; a worker stops at its own first
    // failure, and workers with a higher index stop once a lower-indexed worker has failed. The
    // failure that is reported is the one of the lowest-indexed failing worker - a pure function of
    // (code, seed, cases, workers), independent of thread timing.
    let first_fail = std::sync::atomic::AtomicUsize::new(usize::MAX);
    let seed_of = |wi: usize, name: &str| splitmix(seed ^ splitmix(wi as u64 + 1) ^ splitmix(hash_str(name)));
    let share = |wi: usize| per + if (wi as u64) < rem { 1 } else { 0 };
    let config = |wi: usize, name: &str| {
        let mut cfg = PtConfig::default();
        cfg.cases = share(wi).min(u32::MAX as u64) as u32;
        cfg.failure_persistence = None;
        cfg.rng_seed = RngSeed::Fixed(seed_of(wi, name));
        cfg.max_shrink_iters = 1500;
        cfg.max_global_rejects = 0x10000;
        cfg.verbose = 0;
        cfg
    };
    std::thread::scope(|sc| {
        for wi in 0..workers {
            if share(wi) == 0 {
                continue;
            }
            let merged = &merged;
            let first_fail = &first_fail;
            let make_strategy = &make_strategy;
            let check = &check;
            let config = &config;
            let name = section.name.clone();
            sc.spawn(move || {
                let mut runner = TestRunner::new(config(wi, &name));
                let strat = make_strategy();
                let stats = std::cell::RefCell::new(Stats::default());
                let done = std::cell::Cell::new(false);
                let _ = runner.run(&strat, |case| {
                    if done.get() || first_fail.load(std::sync::atomic::Ordering::Relaxed) < wi {
                        done.set(true);
                        return Ok(());
                    }
                    let mut info = CaseInfo::default();
                    let r = check(&case, &mut info);
                    stats.borrow_mut().record(&case, &info);
                    if r.is_err() {
                        first_fail.fetch_min(wi, std::sync::atomic::Ordering::Relaxed);
                        done.set(true);
                    }
                    Ok(())
                });
                merged.lock().unwrap().merge(stats.into_inner());
            });
        }
    });
    section.stats.merge(merged.into_inner().unwrap());
    // Pass 2: replay the failing worker's stream alone, this time with shrinking.
    let wi = first_fail.into_inner();
    if wi != usize::MAX {
        let mut runner = TestRunner::new(config(wi, &section.name));
        let strat = make_strategy();
        let res = runner.run(&strat, |case| {
            let mut info = CaseInfo::default();
            match check(&case, &mut info) {
                Ok(()) => Ok(()),
                Err(e) => Err(TestCaseError::fail(e)),
            }
        });
        match res {
            Ok(()) => section.violations.push(Violation {
                reason: "HARNESS: a failure seen in the detection pass did not reproduce in the shrinking pass (non-deterministic check)".into(),
                case: Value::Null,
                signature: "harness-nondeterministic".into(),
            }),
            Err(TestError::Fail(reason, case)) => {
                let reason = reason.message().to_string();
                // re-run the minimal case for the exact reason
                let mut info = CaseInfo::default();
                let reason2 = check(&case, &mut info).err().unwrap_or(reason);
                let sig = signature(&case, &reason2);
                section.violations.push(Violation { reason: reason2, case: serde_json::to_value(&case).unwrap_or(Value::Null), signature: sig });
            }
            Err(TestError::Abort(r)) => section.violations.push(Violation {
                reason: format!("HARNESS-ABORT: {}", r.message()),
                case: Value::Null,
                signature: "harness-abort".into(),
            }),
        }
    }
}

pub fn hash_str(s: &str) -> u64 {
    let mut h = std::collections::hash_map::DefaultHasher::new();
    s.hash(&mut h);
    h.finish()
}

/// Run an enumerated list of cases in parallel chunks; stops collecting after the first few failures.
pub fn run_enumerated<T, F>(
    section: &mut Section,
    cases: Vec<T>,
    workers: usize,
    check: F,
    signature: impl Fn(&T, &str) -> String + Sync,
) where
    T: Serialize + Hash + Sync,
    F: Fn(&T, &mut CaseInfo) -> Result<(), String> + Sync,
{
    let workers = workers.max(1);
    let chunk = (cases.len() + workers - 1) / workers.max(1);
    let merged: Mutex<(Stats, Vec<Violation>)> = Mutex::new((Stats::default(), Vec::new()));
    std::thread::scope(|sc| {
        for part in cases.chunks(chunk.max(1)) {
            let merged = &merged;
            let check = &check;
            let signature = &signature;
            sc.spawn(move || {
                let mut stats = Stats::default();
                let mut viol = Vec::new();
                for case in part {
                    let mut info = CaseInfo::default();
                    let r = check(case, &mut info);
                    stats.record(case, &info);
                    if let Err(e) = r {
                        if viol.len() < 3 {
                            let sig = signature(case, &e);
                            viol.push(Violation {
                                reason: e,
                                case: serde_json::to_value(case).unwrap_or(Value::Null),
                                signature: sig,
                            });
                        }
                    }
                }
                let mut g = merged.lock().unwrap();
                g.0.merge(stats);
                g.1.extend(viol);
            });
        }
    });
    let (st, v) = merged.into_inner().unwrap();
    section.stats.merge(st);
    // keep the smallest reproductions first, at most 3 per section
    let mut v = v;
    v.sort_by_key(|x| x.case.to_string().len());
    v.truncate(3);
    section.violations.extend(v);
}

/// Result of one vcheck invocation (one property, one build variant)
pub struct Report {
    pub property: String,
    pub level: &'static str,
    pub sections: Vec<Section>,
    pub assumptions: Vec<String>,
}

impl Report {
    pub fn new(property: &str, level: &'static str) -> Report {
        Report {
            property: property.to_string(),
            level,
            sections: Vec::new(),
            assumptions: Vec::new(),
        }
    }
    pub fn violations(&self) -> Vec<&Violation> {
        self.sections.iter().flat_map(|s| s.violations.iter()).collect()
    }
}

//! Plain-data descriptions of configurations and drawing programs (serialisable: these are the
//! replay files).

use crate::models::ModelId;
use serde::{Deserialize, Serialize};

#[derive(Clone, Copy, Debug, PartialEq, Eq, Hash, Serialize, Deserialize, PartialOrd, Ord)]
pub struct Orient {
    /// clockwise quarter turns, 0..=3
    pub rot: u8,
    pub mirrored: bool,
}

impl Orient {
    pub const ALL: [Orient; 8] = [
        Orient { rot: 0, mirrored: false },
        Orient { rot: 1, mirrored: false },
        Orient { rot: 2, mirrored: false },
        Orient { rot: 3, mirrored: false },
        Orient { rot: 0, mirrored: true },
        Orient { rot: 1, mirrored: true },
        Orient { rot: 2, mirrored: true },
        Orient { rot: 3, mirrored: true },
    ];
    pub fn index(self) -> usize {
        self.rot as usize + if self.mirrored { 4 } else { 0 }
    }
    pub fn vertical(self) -> bool {
        self.rot % 2 == 1
    }
    pub fn to_mipidsi(self) -> mipidsi::options::Orientation {
        use mipidsi::options::{Orientation, Rotation};
        let mut o = Orientation::new();
        o.rotation = match self.rot {
            0 => Rotation::Deg0,
            1 => Rotation::Deg90,
            2 => Rotation::Deg180,
            _ => Rotation::Deg270,
        };
        o.mirrored = self.mirrored;
        o
    }
    pub fn from_mipidsi(o: mipidsi::options::Orientation) -> Orient {
        use mipidsi::options::Rotation;
        Orient {
            rot: match o.rotation {
                Rotation::Deg0 => 0,
                Rotation::Deg90 => 1,
                Rotation::Deg180 => 2,
                Rotation::Deg270 => 3,
            },
            mirrored: o.mirrored,
        }
    }
}

#[derive(Clone, Copy, Debug, PartialEq, Eq, Hash, Serialize, Deserialize)]
pub enum Transport {
    /// direct `Interface` recorder, 8-bit words, KIND = Parallel8Bit (accepted by every model)
    Rec8,
    /// direct `Interface` recorder, 16-bit words, KIND = Parallel16Bit (Rgb565 models only)
    Rec16,
    /// real `SpiInterface` over the rig's SPI device and DC pin, staging buffer of this length
    Spi { buf: u32 },
    /// real `ParallelInterface` over `Generic8BitBus`
    Par8,
    /// real `ParallelInterface` over `Generic16BitBus` (Rgb565 models only)
    Par16,
}

impl Transport {
    pub fn bus_bits(self) -> u8 {
        match self {
            Transport::Rec16 | Transport::Par16 => 16,
            _ => 8,
        }
    }
    pub fn kind(self) -> Kind {
        match self {
            Transport::Spi { .. } => Kind::Serial,
            Transport::Rec8 | Transport::Par8 => Kind::P8,
            Transport::Rec16 | Transport::Par16 => Kind::P16,
        }
    }
    pub fn pin_level(self) -> bool {
        matches!(self, Transport::Spi { .. } | Transport::Par8 | Transport::Par16)
    }
    pub fn label(self) -> &'static str {
        match self {
            Transport::Rec8 => "rec8",
            Transport::Rec16 => "rec16",
            Transport::Spi { .. } => "spi",
            Transport::Par8 => "par8",
            Transport::Par16 => "par16",
        }
    }
}

#[derive(Clone, Copy, Debug, PartialEq, Eq, Hash, Serialize, Deserialize)]
pub enum Kind {
    Serial,
    P8,
    P16,
}

#[derive(Clone, Debug, PartialEq, Eq, Hash, Serialize, Deserialize)]
pub struct Config {
    pub model: ModelId,
    pub transport: Transport,
    pub w: u16,
    pub h: u16,
    pub ox: u16,
    pub oy: u16,
    pub orient: Orient,
    pub bgr: bool,
    pub invert: bool,
    /// bottom-to-top refresh
    pub refresh_v: bool,
    /// right-to-left refresh
    pub refresh_h: bool,
    pub reset_pin: bool,
}

impl Config {
    pub fn full(model: ModelId, transport: Transport) -> Config {
        let (w, h) = model.fb();
        Config {
            model,
            transport,
            w,
            h,
            ox: 0,
            oy: 0,
            orient: Orient { rot: 0, mirrored: false },
            bgr: false,
            invert: false,
            refresh_v: false,
            refresh_h: false,
            reset_pin: false,
        }
    }
    /// logical size under an orientation
    pub fn logical_size(&self, o: Orient) -> (u32, u32) {
        if o.vertical() {
            (self.h as u32, self.w as u32)
        } else {
            (self.w as u32, self.h as u32)
        }
    }
    pub fn asymmetric(&self) -> bool {
        let (fw, fh) = self.model.fb();
        let rx = fw as i64 - self.w as i64 - self.ox as i64;
        let ry = fh as i64 - self.h as i64 - self.oy as i64;
        self.w != self.h && (self.ox as i64 != rx || self.oy as i64 != ry) && (self.ox != self.oy || rx != ry)
    }
    /// colour-order bit the controller is expected to hold (one external model inverts it by design)
    pub fn madctl_bgr(&self) -> bool {
        self.bgr ^ (self.model == ModelId::EInvBgr)
    }
    pub fn non_default(&self) -> bool {
        self.orient != (Orient { rot: 0, mirrored: false }) || self.ox != 0 || self.oy != 0
    }
}

// serde for ModelId by name
impl Serialize for ModelId {
    fn serialize<S: serde::Serializer>(&self, s: S) -> Result<S::Ok, S::Error> {
        s.serialize_str(self.name())
    }
}
impl<'de> Deserialize<'de> for ModelId {
    fn deserialize<D: serde::Deserializer<'de>>(d: D) -> Result<Self, D::Error> {
        let s = String::deserialize(d)?;
        ModelId::from_name(&s).ok_or_else(|| serde::de::Error::custom(format!("unknown model {}", s)))
    }
}

/// A rectangle as embedded-graphics takes it
#[derive(Clone, Copy, Debug, PartialEq, Eq, Hash, Serialize, Deserialize)]
pub struct Rect {
    pub x: i32,
    pub y: i32,
    pub w: u32,
    pub h: u32,
}

impl Rect {
    pub fn area(&self) -> u64 {
        self.w as u64 * self.h as u64
    }
    /// valid for embedded-graphics: bottom-right corner computable in i32, fewer than 2^32 points
    pub fn valid(&self) -> bool {
        self.w <= i32::MAX as u32
            && self.h <= i32::MAX as u32
            && (self.x as i64 + self.w as i64) <= i32::MAX as i64
            && (self.y as i64 + self.h as i64) <= i32::MAX as i64
            && self.area() < (1u64 << 32)
    }
    pub fn to_eg(&self) -> embedded_graphics_core::primitives::Rectangle {
        use embedded_graphics_core::geometry::{Point, Size};
        embedded_graphics_core::primitives::Rectangle::new(Point::new(self.x, self.y), Size::new(self.w, self.h))
    }
}

/// Length of the colour stream handed to fill_contiguous
#[derive(Clone, Copy, Debug, PartialEq, Eq, Hash, Serialize, Deserialize)]
pub enum StreamLen {
    Finite(u64),
    Infinite,
}

/// One drawing call. Colours are derived from `seed` and the index within the call
/// (see `colour_of`), so a misplaced / duplicated / dropped pixel changes the picture.
#[derive(Clone, Debug, PartialEq, Eq, Hash, Serialize, Deserialize)]
pub enum DrawOp {
    SetPixel { x: u16, y: u16, seed: u32 },
    /// in-range window, `n` colours (n <= area: inside the documented contract)
    SetPixels { sx: u16, sy: u16, ex: u16, ey: u16, n: u32, seed: u32 },
    DrawIter { pts: Vec<(i32, i32)>, seed: u32 },
    FillContiguous { rect: Rect, len: StreamLen, seed: u32 },
    FillSolid { rect: Rect, seed: u32 },
    Clear { seed: u32 },
}

/// k-th colour of a call with the given seed, as a raw value of `bits` bits.
/// A hash of (seed, k), deliberately *not* periodic in k: a stream shifted by any amount
/// (including multiples of 65536) changes the picture. Neighbouring indices collide with
/// probability 2^-bits only.
pub fn colour_of(seed: u32, k: u64, bits: u32) -> u32 {
    let mask = (1u64 << bits) - 1;
    if seed >= UNIFORM_SEED_BASE {
        // colours whose bus bytes / components are all equal: black, white, and "greys" - the most
        // common fill colours in practice, and the ones transports treat specially
        return uniform_colour(seed, bits);
    }
    if seed & 7 == 7 {
        // palette mode (one seed in eight): only three distinct colours, chosen pseudo-randomly per
        // index, so that patterns like A B A / A A B A occur (same colour at both ends of a run,
        // a different one inside) - a "uniform run" shortcut is only visible on such streams
        let idx = colour_hash(seed ^ 0x5bd1_e995, k) % 3;
        return (colour_hash(seed, idx) & mask) as u32;
    }
    (colour_hash(seed, k) & mask) as u32
}

/// seeds from here up select uniform colours (see `colour_of`)
pub const UNIFORM_SEED_BASE: u32 = 0xFFFF_FF00;

pub fn uniform_colour(seed: u32, bits: u32) -> u32 {
    let v = seed & 0xff;
    match (v, bits) {
        (0, _) => 0,
        (1, 16) => 0xffff,
        (1, _) => 0x3ffff,
        // Rgb565 raw value with equal high and low byte; Rgb666 with r == g == b
        (_, 16) => {
            let b = (v * 37 + 11) & 0xff;
            b << 8 | b
        }
        _ => {
            let c = (v * 5 + 3) & 63;
            c << 12 | c << 6 | c
        }
    }
}

fn colour_hash(seed: u32, k: u64) -> u64 {
    let mut z = k.wrapping_add((seed as u64) << 32 | 0x9E37_79B9).wrapping_mul(0x9E37_79B9_7F4A_7C15);
    z = (z ^ (z >> 30)).wrapping_mul(0xBF58_476D_1CE4_E5B9);
    z = (z ^ (z >> 27)).wrapping_mul(0x94D0_49BB_1331_11EB);
    z ^ (z >> 31)
}

//! Coverage-guided target for C03: bytes -> (config, pixel stream); differential oracle inside.
#![no_main]
use libfuzzer_sys::fuzz_target;
use vharness::fuzzdec;
use vharness::props::c03;
use vharness::runner::CaseInfo;

fuzz_target!(|data: &[u8]| {
    let case = fuzzdec::stream_case(data);
    let mut info = CaseInfo::default();
    if let Err(e) = c03::check(&case, &mut info) {
        eprintln!("FUZZ-VIOLATION property=C03 reason={}", e);
        eprintln!("FUZZ-CASE {}", serde_json::to_string(&case).unwrap());
        panic!("property C03 violated");
    }
});

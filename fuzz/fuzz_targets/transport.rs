//! Coverage-guided target for C06 / C07: bytes -> SPI op sequence and parallel op sequence.
#![no_main]
use libfuzzer_sys::fuzz_target;
use vharness::fuzzdec;
use vharness::props::{c06, c07};
use vharness::runner::CaseInfo;

fuzz_target!(|data: &[u8]| {
    if data.is_empty() {
        return;
    }
    let mut info = CaseInfo::default();
    let only = std::env::var("FUZZ_PROP").ok();
    let spi = match only.as_deref() {
        Some("C06") => true,
        Some("C07") => false,
        _ => data[0] & 1 == 0,
    };
    if spi {
        let case = fuzzdec::spi_case(&data[1..]);
        if let Err(e) = c06::check(&case, &mut info) {
            eprintln!("FUZZ-VIOLATION property=C06 reason={}", e);
            eprintln!("FUZZ-CASE {}", serde_json::to_string(&case).unwrap());
            panic!("property C06 violated");
        }
    } else {
        let case = fuzzdec::par_case(&data[1..]);
        if let Err(e) = c07::check(&case, &mut info) {
            eprintln!("FUZZ-VIOLATION property=C07 reason={}", e);
            eprintln!("FUZZ-CASE {}", serde_json::to_string(&case).unwrap());
            panic!("property C07 violated");
        }
    }
});

//! Coverage-guided target for C01 / C02 / C08 / C20: bytes -> (config, drawing program with arbitrary
//! coordinates); the semantic oracles (reference image, framing grammar, overhead bounds) run inside.
#![no_main]
use libfuzzer_sys::fuzz_target;
use vharness::fuzzdec;
use vharness::props::{c02, c08, c20};
use vharness::runner::CaseInfo;

fuzz_target!(|data: &[u8]| {
    let case = fuzzdec::prog_case(data);
    let mut info = CaseInfo::default();
    let fail = |prop: &str, e: String| {
        eprintln!("FUZZ-VIOLATION property={} reason={}", prop, e);
        eprintln!("FUZZ-CASE {}", serde_json::to_string(&case).unwrap());
        panic!("property {} violated", prop);
    };
    // FUZZ_PROP selects one oracle (so that a violation of another property does not end the campaign)
    let only = std::env::var("FUZZ_PROP").ok();
    let want = |p: &str| only.as_deref().map(|o| o == p).unwrap_or(true);
    if want("C02") {
        if let Err(e) = c02::check(&case, &mut info) {
            fail("C02", e);
        }
    }
    if want("C08") {
        if let Err(e) = c08::check(&case, &mut info) {
            fail("C08", e);
        }
    }
    if want("C20") {
        if let Err(e) = c20::check(&case, &mut info) {
            fail("C20", e);
        }
    }
});
